"""aliquot_spellings.py -- documented spellings of aliquot components (DESIGN.md Appendix A), transcribed from readme.md,
guides/guides/tract.md and the comments in pytrs/parser/rgxlib/aliquots.py -- NOT from what the patterns happen to accept.
Trusted base of C07 (and of the aliquot vocabulary of C06 / C01)."""
HALVES = {'N': 'North', 'S': 'South', 'E': 'East', 'W': 'West'}
QUARTERS = {'NE': ('North', 'East'), 'NW': ('North', 'West'), 'SE': ('South', 'East'), 'SW': ('South', 'West')}
COMPONENTS = ('N', 'S', 'E', 'W', 'NE', 'NW', 'SE', 'SW')


def canonical(c):
    return c + ('½' if c in HALVES else '¼')


def spellings(c):
    if c in HALVES:
        w = HALVES[c]
        return [c + '½', c + '/2', c + '2', c + ' 2', c + ' 1/2', c + '1/2', w + ' Half', w + ' One Half', c + '. ½', c + '.½']
    w1, w2 = QUARTERS[c]
    x, y = c[0], c[1]
    return [c + '¼', c + '/4', c + '4', c + ' 4', c + ' 1/4', w1 + w2.lower() + ' Quarter', w1 + ' ' + w2 + ' Quarter',
            w1 + ' ' + w2 + ' One Quarter', x + '.' + y + '. ¼', x + ' ' + y + ' ¼']


def ends_tight(sp):
    """spellings after which the next component may follow without a separator"""
    return sp[-1] in '½¼24'


JOINERS = (' ', ' of ', ' of the ', '')
SCRUBBER_OF = {'NE': 'ne_regex', 'NW': 'nw_regex', 'SE': 'se_regex', 'SW': 'sw_regex', 'N': 'n2_regex', 'S': 's2_regex',
               'E': 'e2_regex', 'W': 'w2_regex'}
CLEAN_OF = {'NE': 'ne_clean', 'NW': 'nw_clean', 'SE': 'se_clean', 'SW': 'sw_clean'}
# order in which tract_preprocess.scrub_aliquots applies them
PIPELINE = ('ne_regex', 'nw_regex', 'se_regex', 'sw_regex', 'n2_regex', 's2_regex', 'e2_regex', 'w2_regex')
