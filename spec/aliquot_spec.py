"""aliquot_spec.py -- geometry of PLSS aliquot parts, written from the PLSS definition (a section is a square; halves
cut one axis in two, quarters cut both), independent of the tables in pytrs.parser.tract.aliquot_parse.
Rectangles are (x0, x1, y0, y1) in exact fractions of the unit square, x growing east, y growing north."""
import re
from fractions import Fraction as F

HALVES = ('N', 'S', 'E', 'W')
QUARTERS = ('NE', 'NW', 'SE', 'SW')
COMPONENTS = HALVES + QUARTERS + ('ALL',)
UNIT = (F(0), F(1), F(0), F(1))


def cut(rect, comp):
    x0, x1, y0, y1 = rect
    xm, ym = (x0 + x1) / 2, (y0 + y1) / 2
    if comp == 'ALL':
        return rect
    if comp in QUARTERS:
        ns, ew = comp[0], comp[1]
    elif comp in ('N', 'S'):
        ns, ew = comp, None
    else:
        ns, ew = None, comp
    if ns == 'N':
        y0 = ym
    elif ns == 'S':
        y1 = ym
    if ew == 'E':
        x0 = xm
    elif ew == 'W':
        x1 = xm
    return (x0, x1, y0, y1)


def region(chain, max_depth=None):
    """chain is written smallest-first (as in 'N½NE¼' = ['N', 'NE']); it is applied largest-first.  With max_depth, a
    halving of an axis that has already been halved max_depth times is ignored."""
    rect = UNIT
    nx = ny = 0
    for comp in reversed(chain):
        if comp == 'ALL':
            continue
        cuts_y = comp in ('N', 'S') or comp in QUARTERS
        cuts_x = comp in ('E', 'W') or comp in QUARTERS
        eff_ns = comp[0] if comp in QUARTERS else (comp if comp in ('N', 'S') else None)
        eff_ew = comp[1] if comp in QUARTERS else (comp if comp in ('E', 'W') else None)
        if cuts_y and max_depth is not None and ny >= max_depth:
            eff_ns = None
        if cuts_x and max_depth is not None and nx >= max_depth:
            eff_ew = None
        if eff_ns:
            rect = cut(rect, eff_ns)
            ny += 1
        if eff_ew:
            rect = cut(rect, eff_ew)
            nx += 1
    return rect


TOKEN = re.compile(r'(NE|NW|SE|SW|[NSEW]2)')


def tokens(piece):
    """'E2NWSE' -> ['E', 'NW', 'SE'] (smallest first); None if the string is not a piece"""
    out = []
    pos = 0
    while pos < len(piece):
        m = TOKEN.match(piece, pos)
        if not m:
            return None
        t = m.group(1)
        out.append(t[0] if t.endswith('2') else t)
        pos = m.end()
    return out or None


def area(r):
    return (r[1] - r[0]) * (r[3] - r[2])


def inside(r, R):
    return R[0] <= r[0] and r[1] <= R[1] and R[2] <= r[2] and r[3] <= R[3]


def overlap(a, b):
    return min(a[1], b[1]) > max(a[0], b[0]) and min(a[3], b[3]) > max(a[2], b[2])


def canonical_text(chain):
    return ''.join('ALL' if c == 'ALL' else (c + '½' if c in HALVES else c + '¼') for c in chain)


def check_tiling(chain, pieces, dmin, dmax, break_halves):
    """returns None if the pieces tile the described region at the requested depth, else a reason string"""
    R = region(chain, dmax)
    rects = []
    for p in pieces:
        tk = tokens(p)
        if tk is None:
            return f'piece {p!r} is not a sequence of aliquot components'
        if len(tk) < dmin:
            return f'piece {p!r} is shallower than qq_depth_min={dmin}'
        if any(t in HALVES for t in tk[-dmin:]):
            return f'piece {p!r}: its largest {dmin} components are not all quarters'
        if dmax is not None and len(tk) > dmax:
            return f'piece {p!r} is deeper than qq_depth_max={dmax}'
        if break_halves and any(t in HALVES for t in tk):
            return f'piece {p!r} contains a half although break_halves is on'
        r = region(tk)
        if not inside(r, R):
            return f'piece {p!r} lies outside the described region'
        rects.append(r)
    for i in range(len(rects)):
        for j in range(i + 1, len(rects)):
            if overlap(rects[i], rects[j]):
                return f'pieces {pieces[i]!r} and {pieces[j]!r} overlap'
    if sum((area(r) for r in rects), F(0)) != area(R):
        return f'areas add up to {sum((area(r) for r in rects), F(0))} instead of {area(R)}'
    return None
