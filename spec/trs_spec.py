"""trs_spec.py -- independent statement of the Twp/Rge/Sec standard form (property C12/C09), written from the
documentation (guides/guides/trs.md, readme, docstrings of TRS) and the property text, not from the code.
Pure Python: used by S harness oracles, by Z/M templates and by the public-API replays."""
import re

ERR_TWP = ERR_RGE = 'XXXz'
ERR_SEC = 'XX'
UNDEF_TWP = UNDEF_RGE = '___z'
UNDEF_SEC = '__'
ERR_TRS = ERR_TWP + ERR_RGE + ERR_SEC
UNDEF_TRS = UNDEF_TWP + UNDEF_RGE + UNDEF_SEC

# the standard form, as a plain regular expression over the *given* string (case-insensitive on the letters
# n/s/e/w only; placeholders are literal)
STD_TWP = r'(?:\d{1,3}[nsNS])'
STD_RGE = r'(?:\d{1,3}[ewEW])'
STD_SEC = r'(?:\d{2})'
STANDARD = re.compile(rf'(?:{STD_TWP}|XXXz|___z)(?:{STD_RGE}|XXXz|___z)(?:{STD_SEC}|XX|__)')


def is_standard(s):
    return STANDARD.fullmatch(s) is not None


def decompose(s):
    """expected attribute dict for a string in standard form (see TRS docstring)"""
    m = re.fullmatch(rf'(?P<twp>{STD_TWP}|XXXz|___z)(?P<rge>{STD_RGE}|XXXz|___z)(?P<sec>{STD_SEC}|XX|__)', s)
    assert m, s
    twp, rge, sec = m.group('twp').lower() if m.group('twp')[0].isdigit() else m.group('twp'), \
        m.group('rge').lower() if m.group('rge')[0].isdigit() else m.group('rge'), m.group('sec')
    d = {'twp': twp, 'rge': rge, 'sec': sec, 'trs': twp + rge + sec, 'twprge': twp + rge}
    d['twp_num'] = int(twp[:-1]) if twp[0].isdigit() else None
    d['twp_ns'] = twp[-1] if twp[0].isdigit() else None
    d['twp_undef'] = twp == UNDEF_TWP
    d['rge_num'] = int(rge[:-1]) if rge[0].isdigit() else None
    d['rge_ew'] = rge[-1] if rge[0].isdigit() else None
    d['rge_undef'] = rge == UNDEF_RGE
    d['sec_num'] = int(sec) if sec.isdigit() else None
    d['sec_undef'] = sec == UNDEF_SEC
    return d


# ---- construct_trs: input encodings (kinds) and the expected canonical rendering
TR_KINDS = ('int', 'digits', 'digits+dir', 'digits+DIR', 'none', 'empty', 'garbage', 'four-digit')
SEC_KINDS = ('int', 'digits', 'digits-padded', 'none', 'empty', 'garbage', 'three-digit')
DEFAULTS = (None, 'n', 's', 'N', 'S')
DEFAULTS_EW = (None, 'e', 'w', 'E', 'W')


def render_tr_input(kind, n, letter):
    """the value handed to construct_trs for a township/range of number n, direction letter `letter`"""
    k = TR_KINDS[kind]
    if k == 'int':
        return n
    if k == 'digits':
        return str(n)
    if k == 'digits+dir':
        return f'{n}{letter.lower()}'
    if k == 'digits+DIR':
        return f'{n}{letter.upper()}'
    if k == 'none':
        return None
    if k == 'empty':
        return ''
    if k == 'garbage':
        return 'abc'
    return 1000 + n


def expect_tr(kind, n, letter, default, master, err, undef):
    k = TR_KINDS[kind]
    if k in ('none', 'empty'):
        return undef
    if k in ('garbage', 'four-digit'):
        return err
    if k in ('digits+dir', 'digits+DIR'):
        d = letter.lower()
    else:
        d = (default if default is not None else master).lower()
    return f'{n}{d}'


def render_sec_input(kind, n):
    k = SEC_KINDS[kind]
    if k == 'int':
        return n
    if k == 'digits':
        return str(n)
    if k == 'digits-padded':
        return str(n).rjust(2, '0')
    if k == 'none':
        return None
    if k == 'empty':
        return ''
    if k == 'garbage':
        return 'abc'
    return 100 + n


def expect_sec(kind, n):
    k = SEC_KINDS[kind]
    if k in ('none', 'empty'):
        return UNDEF_SEC
    if k in ('garbage', 'three-digit'):
        return ERR_SEC
    return str(n).rjust(2, '0')
