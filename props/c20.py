"""C20 -- optional parse modes are conservative where they are not needed."""
from engine.framework import Ob, result, violation, from_explore

PROPERTY = 'C20'
LEVEL = 'other'
FILES = ['pytrs/parser/plssdesc/plss_parse.py', 'pytrs/parser/plssdesc/plssdesc.py', 'pytrs/parser/rgxlib/sec.py']
ASSUMPTIONS = [
    'well-formed single-layout documents (props/wf_docs.py: 4 layouts x 1..2 Twp/Rge groups x 1..2 section groups x block '
    'vocabulary x single / through-range sections x colon on/off x 3 separators) as provenance documents with contract finder '
    'patterns; all of these choices are symbolic',
    'sec_within documents: leading text (>= 4 characters), one section or through-range, trailing text, Twp/Rge before / right '
    'after the section / at the end',
    'engine M discharges the part of the finder contract this property leans on: the `colon` group of the live multisec_regex '
    'participates exactly when a colon follows the section list',
]
EXPLANATION = ('CrossHair runs the real PLSSChunker / SecFinder / marker walk / rebuild_sec_within under pairs of modes on the same '
               'symbolic document and compares the tracts (and with the template\'s expected tracts); z3 (engine M) proves the colon '
               'group contract on the live pattern.')


def _run_modes(doc, modes):
    from props import plss_abs as P
    from props.wf_docs import observed
    out = {}
    for m in modes:
        p = P.run_parser(doc, m)
        out[m] = (observed(p), list(p.w_flags), list(p.e_flags))
    return out


def ob_segment(ob):
    from engine.xh import explore, choose
    from props import wf_docs as W

    only = ob.params.get('layout')
    B0, B1 = ((0, 2, 5), (1, 3, 7)) if not ob.params.get('deep') else (tuple(range(len(W.BLOCKS))), tuple(range(len(W.BLOCKS))))

    def target(lay: int, ntr: bool, nsec: bool, b0: int, b1: int, multi: bool, colon: bool, sep: int):
        layout = only if only else choose(lay, W.LAYOUTS)
        doc, exp = W.build(layout, 2 if ntr else 1, 2 if nsec else 1, (choose(b0, B0), choose(b1, B1)), bool(multi),
                           bool(colon), choose(sep, range(3)))
        r = _run_modes(doc, ('default', 'segment'))
        return r['default'][0] == exp and r['segment'][0] == exp and r['default'][2] == [] and r['segment'][2] == []

    st = explore(target, timeout=ob.params.get('cap', 1500), max_viol=6)
    info = dict(bound='4 layouts x 1..2 Twp/Rge groups x 1..2 section groups x 3x3 blocks x single/range x colon on/off x 3 separators',
                samples=[{'doc': 'T150N-R90W Sec 10: NE/4, Sec 11: Lots 1 - 2\nT151N-R91W Sec 20: W/2', 'modes': ['default', 'segment']}])
    cl = lambda x, n: x if 0 <= x < n - 1 else n - 1

    def mk(vs):
        out = []
        for v in vs:
            a = v['args']
            doc, exp = W.build(only or W.LAYOUTS[cl(a['lay'], 4)], 2 if a['ntr'] else 1, 2 if a['nsec'] else 1,
                               (B0[cl(a['b0'], len(B0))], B1[cl(a['b1'], len(B1))]), bool(a['multi']), bool(a['colon']), cl(a['sep'], 3))
            out.append(violation('segment-changes-result', f'{doc.string!r}: parsing with and without `segment` differs (or differs from the '
                                 f'expected tracts {exp}); {v["exc"]}', 'c20_modes', {'text': doc.string, 'expected': exp, 'what': 'segment'}))
        return out[:3]
    return from_explore(st, info, mk)


def ob_colon(ob):
    from engine.xh import explore, choose
    from props import wf_docs as W
    from props.c11_ref import whole

    def target(lay: bool, ntr: bool, nsec: bool, b0: int, multi: bool, colon: bool, sep: int):
        layout = 'TRS_desc' if lay else 'S_desc_TR'
        doc, exp = W.build(layout, 2 if ntr else 1, 2 if nsec else 1, (choose(b0, range(3)), 3), bool(multi), bool(colon), choose(sep, range(3)))
        r = _run_modes(doc, ('default', 'colon_required', 'colon_cautious'))
        if r['default'][0] != exp:
            return False
        if colon:
            return r['colon_required'][0] == exp and r['colon_cautious'][0] == exp and \
                r['colon_required'][1] == r['default'][1] == r['colon_cautious'][1]
        if r['colon_cautious'][0] != exp or not any(f.startswith('pulled_sec_without_colon') for f in r['colon_cautious'][1]):
            return False
        req = r['colon_required'][0]
        return len(req) == 1 and whole(req[0][1], doc.string)

    st = explore(target, timeout=ob.params.get('cap', 1500), max_viol=6)
    info = dict(bound='TRS_desc / S_desc_TR documents, every section with a colon or none with a colon; 3 colon modes',
                samples=[{'doc': 'T150N-R90W Sec 10 NE/4, Sec 11 Lots 1 - 2', 'modes': ['default', 'sec_colon_cautious', 'sec_colon_required']}])
    cl = lambda x, n: x if 0 <= x < n - 1 else n - 1

    def mk(vs):
        out = []
        for v in vs:
            a = v['args']
            doc, exp = W.build('TRS_desc' if a['lay'] else 'S_desc_TR', 2 if a['ntr'] else 1, 2 if a['nsec'] else 1, (cl(a['b0'], 3), 3),
                               bool(a['multi']), bool(a['colon']), cl(a['sep'], 3))
            out.append(violation('colon-mode:' + ('all-colons' if a['colon'] else 'no-colons'), f'{doc.string!r}: colon modes are not conservative; {v["exc"]}',
                                 'c20_modes', {'text': doc.string, 'expected': exp, 'what': 'colon_all' if a['colon'] else 'colon_none'}))
        return out[:3]
    return from_explore(st, info, mk)


LEADS = (' That part', 'All that portion', ' A strip 100 feet wide across')
TRAILS = (' lying north of the river', ' described as follows: beginning at the NE corner', ' lying within the right-of-way, containing 3.2 acres')


def sw_doc(lead, multi, trail, place):
    from engine.contracts import Doc, tr_seg, sec_seg
    tr = tr_seg(154, 'N', 97, 'W')
    sec = sec_seg([1, 3] if multi else [14], False, thru=True)
    if place == 0:        # Twp/Rge first
        return Doc(['', ' ' + LEADS[lead].strip() + ' of ', TRAILS[trail]], [tr, sec]), tr, sec
    if place == 1:        # Twp/Rge right after the section
        return Doc([LEADS[lead] + ' of ', ', ', TRAILS[trail]], [sec, tr]), tr, sec
    if place == 2:        # Twp/Rge at the end
        return Doc([LEADS[lead] + ' of ', TRAILS[trail] + ', ', ''], [sec, tr]), tr, sec
    # Twp/Rge in the middle of the trailing text: two trailing blocks
    return Doc([LEADS[lead] + ' of ', TRAILS[trail] + ', ', ', less and except the highway'], [sec, tr]), tr, sec


def sw_verdict(tracts, w_flags, tr, sec, lead_text, trail_text):
    exp_trs = [tr.data['twprge'] + s for s in sec.data['secs']]
    if [t[0] for t in tracts] != exp_trs:
        return f'tracts {[t[0] for t in tracts]} instead of {exp_trs}'
    lw = [w for w in lead_text.replace(',', ' ').split() if w.lower() not in ('of',)]
    tw = trail_text.replace(',', ' ').split()
    for trs, desc in tracts:
        pos = -1
        for w in lw + tw:
            i = desc.find(w, pos + 1)
            if i < 0:
                return f'description {desc!r} of {trs} lacks {w!r} (leading and trailing text joined in order expected)'
            pos = i
    if not any(f.startswith('sec_within') for f in w_flags):
        return 'no sec_within warning'
    return None


def ob_sec_within(ob):
    from engine.xh import explore, choose
    from props import plss_abs as P
    from props.wf_docs import observed

    def target(lead: int, multi: bool, trail: int, place: int):
        li, ti, pl = choose(lead, range(3)), choose(trail, range(3)), choose(place, range(4))
        doc, tr, sec = sw_doc(li, bool(multi), ti, pl)
        p = P.run_parser(doc, 'sec_within')
        return sw_verdict(observed(p), list(p.w_flags), tr, sec, LEADS[li], TRAILS[ti] + (' less and except the highway' if pl == 3 else '')) is None

    st = explore(target, timeout=600, max_viol=6)
    info = dict(bound='3 leading texts x section | through-range x 3 trailing texts x Twp/Rge before / after section / at the end / inside the trailing text',
                samples=[{'doc': ' That part of Sec 14, T154N-R97W lying north of the river', 'mode': 'sec_within'}])
    cl = lambda x, n: x if 0 <= x < n - 1 else n - 1

    def mk(vs):
        out = []
        for v in vs:
            a = v['args']
            doc, tr, sec = sw_doc(cl(a['lead'], 3), bool(a['multi']), cl(a['trail'], 3), cl(a['place'], 4))
            out.append(violation('sec_within', f'{doc.string!r} with sec_within: leading and trailing text are not joined in order into the '
                                 f'section\'s tract(s) with a warning; {v["exc"]}', 'c20_within',
                                 {'text': doc.string, 'trs': [tr.data['twprge'] + s for s in sec.data['secs']],
                                  'lead': LEADS[cl(a['lead'], 3)], 'trail': TRAILS[cl(a['trail'], 3)] + (' less and except the highway' if cl(a['place'], 4) == 3 else '')}))
        return out[:3]
    return from_explore(st, info, mk)


def ob_m_colon(ob):
    """live multisec_regex: the `colon` group participates iff a colon follows the section list"""
    import time
    import z3
    from pytrs.parser.rgxlib import multisec_regex as pat
    from engine.matcher import Text, Matcher, UCHARS, validate
    from engine.templates import Template, Alt, Fill, Digits, Opt
    N = ob.params['N']
    ag, tot, bad = validate(pat, ['Sec 14: NE/4', 'Sec 14 NE/4', 'Secs 1 - 3 : x', 'Section 5, 6 and 7', 'Sec 14 :', 'Sec. 2:NE'], 24)
    if bad:
        return result('error', notes=[f'translator validation {bad[:2]}'], validated=tot)
    T = Text(N)
    tpl = Template([Alt('word', ['Sec ', 'Section ', 'Secs ', 'Sections ', 'Sec. ', '§ ']), Digits('n0', 1, 2),
                    Opt('more', [Alt('sep', [' - ', ', ', ' and ', '-', ' through ']), Digits('n1', 1, 2)]),
                    Alt('colon', ['', ':', ' :']), Alt('gap', [' ', '']),
                    Fill('block', 'abcdefghijklmnopqrtuvwxyzNEW ', 0, 6, first_not=' ')], T)
    M = Matcher(pat, T)
    co, cc = M.span('colon')
    sol = z3.Solver()
    sol.set('timeout', ob.params.get('cap', 300) * 1000)
    sol.add(*(T.wf() + tpl.cons + M.cons))
    t0 = time.time()
    twin = str(sol.check())
    sample = T.value(sol.model()) if twin == 'sat' else None
    has_colon = tpl.hi('colon') > tpl.lo('colon')
    sol.add(z3.Or(has_colon, tpl.hi('gap') > tpl.lo('gap'), tpl.hi('block') == tpl.lo('block')))   # a block is set off by a colon or a space
    good = z3.And(M.matched, M.startv == 0,
                  z3.If(has_colon, z3.And(co >= tpl.hi('more'), cc == tpl.hi('colon'), M.endv == tpl.hi('colon')),
                        z3.And(co == -1, M.endv == tpl.hi('more'))))
    sol.add(z3.Not(good))
    r = str(sol.check())
    dt = time.time() - t0
    info = dict(queries=2, distinct=1, solver_s=round(dt, 2), validated=tot, states=M.n_states, transitions=M.n_transitions,
                bound=f'6 section words x 1-2 digit numbers x optional second item with 5 connectives x colon (none | ":" | " :") x '
                      f'block <= 6 chars starting with a letter; N={N}', samples=[{'instance': sample, 'answer': r}])
    if twin != 'sat':
        return result('error', notes=['twin ' + twin], **info)
    if r == 'unsat':
        return result('holds', **info)
    if r != 'sat':
        return result('inconclusive', notes=[r], **info)
    w = T.value(sol.model())
    return result('violated', violations=[violation('multisec-colon-group', f'multisec_regex on {w!r}: the colon group / match end does not follow the colon',
                                                    'c20_colon_group', {'text': w})], **info)


def obligations(tier):
    q = tier == 'quick'
    G = ['PLSSChunker.segment', 'PLSSChunker._segment_twprge_first', 'PLSSChunker._segment_twprge_last', 'ChunkParser.parse_chunk',
         'SecFinder.findall_matching_sec', 'TwpRgeFinder.findall_matching_twprge', 'ChunkParser._parse_meaningful',
         'rebuild_sec_within', 'PLSSParser.check_sec_within_tracts', 'deduce_layout', 'cleanup_desc']
    from props.wf_docs import LAYOUTS
    return [Ob(f'segment_equivalence_{lay}', 'S', ob_segment, f'segment on/off give the expected tracts on {lay} documents', functions=G,
               weight=8, timeout=5000, params={'cap': 4500, 'layout': lay, 'deep': not q}) for lay in LAYOUTS] + [
        Ob('colon_modes', 'S', ob_colon, 'colon modes: all colons -> no change; no colons -> cautious = default + warning, required = fallback',
           functions=G, weight=6, timeout=3000, params={'cap': 2700}),
        Ob('sec_within', 'S', ob_sec_within, 'sec_within joins leading and trailing text in order, with a warning', functions=G, weight=2,
           timeout=900),
        Ob('m_colon_group', 'M', ob_m_colon, 'multisec_regex colon group participates iff a colon follows', functions=['multisec_regex'],
           weight=8, timeout=3000, params={'N': 28 if q else 36, 'cap': 900 if q else 2700}),
    ]
