"""C13 shared pieces (no z3/CrossHair imports)"""
BOOLS = ('wait_to_parse', 'parse_qq', 'clean_qq', 'sec_colon_required', 'sec_colon_cautious', 'suppress_lot_divs',
         'ocr_scrub', 'segment', 'break_halves', 'sec_within')
LAYOUTS = ('TRS_desc', 'desc_STR', 'S_desc_TR', 'TR_desc_S', 'copy_all')
TEXTS = {
    'qq': 'T154N-R97W Sec 14: S/2N/2NE/4, NW, N/2 of Lot 1',
    'colon': 'T154N-R97W Sec 14 NE/4, Sec 15: NW/4',
    'ocr': 'TIS4N-R97W Sec 14: NE/4',
    'segment': 'Sec 14: NE/4, T154N-R97W; T155N-R97W Sec 1: W/2',
    'within': 'That part of Sec 14 lying north of the river, T154N-R97W',
    'dirs': 'T154-R97 Sec 14: NE/4',
    'layout': 'T154N-R97W Sec 14: NE/4, Sec 15: W/2',
}


def cfg_item(name, val):
    if val is None:
        return None
    if name in BOOLS:
        return name if val else f'{name}.False'
    if name in ('default_ns', 'default_ew', 'layout'):
        return val
    return f'{name}.{val}'


def cfg_text(d):
    return ','.join(x for x in (cfg_item(k, v) for k, v in d.items()) if x)


def snapshot_desc(d):
    return {'layout': d.current_layout, 'pp': d.pp_desc,
            'tracts': [(t.trs, t.desc, tuple(t.lots), tuple(t.qqs), t.parse_complete, t.pp_desc) for t in d.tracts],
            'w': tuple(d.w_flags), 'e': tuple(d.e_flags)}


def snapshot_tract(t):
    return (t.trs, t.desc, t.pp_desc, tuple(t.lots), tuple(t.qqs), tuple(sorted(t.lot_acres.items())),
            tuple(t.aliquots_whole), tuple(t.w_flags), t.parse_complete)



PLSS_TEXTS = {'qq': ('qq',), 'colon': ('colon',), 'halves_ocr': ('qq', 'ocr'), 'segment_within': ('segment', 'within'),
              'dirs': ('dirs',), 'layout': ('layout', 'segment'), 'depth': ('qq',)}
