"""C15 shared pieces (no z3/CrossHair imports): probes, prior operations, observables."""
TRS_PROBES = ('154n97w14', '154N97W14', 'XXXz97w14', '___z___z__', '1154n97w14', '154n97w', '', '7s2e03')
TRACT_PROBES = (('Lots 1 - 3, N/2NE/4, NE', '154n97w14', 'clean_qq'), ('Lot 2(38.1), S/2 of Lot 1', '7s2e03', ''))
DESC_PROBES = (('T154N-R97W Sec 14: NE/4, Sec 15 - 16: W/2', ''), ('T154-R97 Sec 14: Lots 1 - 2', 'parse_qq'),
               ('T1S4N-R97W Sec 14: NE N2 of L1', ''), ('TIS4N-R9lW Sec 1: NE', 'ocr_scrub,clean_qq'),
               ('NE/4 of Section 14, Township 154, Range 97 West', 's'), ('nothing to see here', ''))
N_PROBES = len(TRS_PROBES) + len(TRACT_PROBES) + len(DESC_PROBES) + 1      # the last probe is the defaults probe
DEFAULT_PAIRS = (('s', 'e'), ('n', 'w'), ('n', 'e'), ('s', 'w'))


def observe_defaults():
    """Twp/Rge built from direction-less numbers under each pair of MasterConfig defaults (restored afterwards)"""
    import pytrs
    MC = pytrs.MasterConfig
    save = (MC.default_ns, MC.default_ew)
    out = []
    try:
        for ns, ew in DEFAULT_PAIRS:
            MC.default_ns, MC.default_ew = ns, ew
            out.append((pytrs.TRS.from_twprgesec(154, 97, 14).trs, pytrs.TRS.from_twprgesec('154', '97', 14).trs,
                        pytrs.Tract.from_twprgesec('NE/4', 7, 8, 9).trs, pytrs.TRS.from_twprgesec('154n', 97, 14).trs))
    finally:
        MC.default_ns, MC.default_ew = save
    return ('defaults',) + tuple(out)


def expected_defaults():
    """what observe_defaults() must return: the defaults in force at the time of each call decide (spec, not code)"""
    return ('defaults',) + tuple((f'154{ns}97{ew}14', f'154{ns}97{ew}14', f'7{ns}8{ew}09', f'154n97{ew}14') for ns, ew in DEFAULT_PAIRS)
OPS = ('parse_other', 'other_defaults_then_restore', 'clear_cache', 'cache_off', 'cache_on', 'prewarm', 'mutate_trs_dict',
       'mutate_exports', 'parse_same_under_other_defaults', 'parse_other_every_setting')
SETTINGS_TOUR = ('ocr_scrub', 'clean_qq,parse_qq', 'segment,sec_within', 'copy_all', 'sec_colon_required', 'sec_colon_cautious',
                 's,e,qq_depth.1,break_halves,parse_qq', 'suppress_lot_divs,parse_qq,qq_depth_min.1,qq_depth_max.3', 'desc_STR')


def observe(pi):
    import pytrs
    if pi == N_PROBES - 1:
        return observe_defaults()
    if pi < len(TRS_PROBES):
        s = TRS_PROBES[pi]
        t = pytrs.TRS(s)
        d = pytrs.trs_to_dict(s)
        return ('trs', t.trs, t.twp, t.rge, t.sec, t.twp_num, t.twp_ns, t.rge_num, t.rge_ew, t.sec_num, t.twp_undef,
                t.rge_undef, t.sec_undef, t.twprge, t.is_error(), t.is_undef(), tuple(sorted((k, repr(v)) for k, v in d.items())),
                t == pytrs.TRS(s), hash(t) == hash(pytrs.TRS(s)), t.pretty_twprge())
    pi -= len(TRS_PROBES)
    if pi < len(TRACT_PROBES):
        desc, trs, cfg = TRACT_PROBES[pi]
        t = pytrs.Tract(desc, trs=trs, config=cfg, parse_qq=True)
        return ('tract', t.trs, t.twp_num, t.rge_ew, t.sec_num, t.desc, t.pp_desc, tuple(t.lots), tuple(t.qqs), tuple(t.ilots),
                tuple(sorted(t.lot_acres.items())), tuple(t.w_flags), tuple(t.e_flags), repr(sorted(t.to_dict('trs', 'lots', 'qqs').items())))
    pi -= len(TRACT_PROBES)
    text, cfg = DESC_PROBES[pi]
    d = pytrs.PLSSDesc(text, config=cfg)
    return ('desc', d.pp_desc, d.current_layout, tuple(d.w_flags), tuple(d.e_flags), tuple(d.w_flag_lines), tuple(d.e_flag_lines),
            tuple((t.trs, t.desc, tuple(t.lots), tuple(t.qqs), tuple(t.w_flags), tuple(t.e_flags), t.orig_index) for t in d.tracts),
            tuple(pytrs.find_twprge(text, preprocess=True)), tuple(pytrs.find_sec(text)), tuple(d.list_trs()),
            repr(d.tracts_to_dict('trs', 'desc', 'lots')))


def apply_op(op, pi):
    """prior activity.  Anything it changes in MasterConfig is restored; the cache switch is deliberately left as set."""
    import pytrs
    MC = pytrs.MasterConfig
    name = OPS[op]
    if name == 'parse_other':
        d = pytrs.PLSSDesc('T1S-R2E Sec 3: Lots 4 - 5, SW/4; T154N-R97W Sec 14: ALL', parse_qq=True)
        pytrs.TRS.from_twprgesec(154, 97, 14)
        return d
    if name in ('other_defaults_then_restore', 'parse_same_under_other_defaults'):
        save = (MC.default_ns, MC.default_ew)
        MC.default_ns, MC.default_ew = 's', 'e'
        try:
            if name == 'other_defaults_then_restore':
                pytrs.PLSSDesc('T154-R97 Sec 14: NE/4', parse_qq=True)
                pytrs.TRS.from_twprgesec(154, 97, 14)
                pytrs.find_twprge('T154-R97', preprocess=True)
            else:
                observe(pi)
        finally:
            MC.default_ns, MC.default_ew = save
        return None
    if name == 'parse_other_every_setting':
        for cfg in SETTINGS_TOUR:
            pytrs.PLSSDesc('TIS4N-R97W Sec l4: NE, N2 of Lot 1; T2S-R3E Sec 5 NW/4', config=cfg)
            pytrs.Tract('NE, N2 of Lot 1', trs='1n1w01', config=cfg.replace('copy_all', '').replace('desc_STR', '').replace('segment,sec_within', '')
                        .replace('sec_colon_required', '').replace('sec_colon_cautious', ''), parse_qq=True)
        pytrs.find_twprge('TIS4N-R97W', ocr_scrub=True)
        pytrs.PLSSDesc('T154N-R97W Sec 14: NE/4').parse(ocr_scrub=True, clean_qq=True, parse_qq=True, segment=True, commit=False)
        return None
    if name == 'clear_cache':
        pytrs.TRS._clear_cache()
        return None
    if name == 'cache_off':
        pytrs.TRS._USE_CACHE = False
        return None
    if name == 'cache_on':
        pytrs.TRS._USE_CACHE = True
        return None
    if name == 'prewarm':
        for s in TRS_PROBES + ('154n97w15', '154n97w16', '7s2e03'):
            pytrs.TRS(s)
        return None
    if name == 'mutate_trs_dict':
        for s in TRS_PROBES:
            d = pytrs.trs_to_dict(s)
            for k in list(d):
                d[k] = 'garbage'
            d['extra'] = 1
            d2 = pytrs.TRS.trs_to_dict(pytrs.TRS(s))
            d2.clear()
        return None
    # mutate_exports: whatever a previous parse of the same probe handed out is scribbled on
    if pi == N_PROBES - 1:
        t = pytrs.TRS.from_twprgesec(154, 97, 14)
        pytrs.trs_to_dict(t.trs).clear()
        return None
    if pi >= len(TRS_PROBES) + len(TRACT_PROBES):
        text, cfg = DESC_PROBES[pi - len(TRS_PROBES) - len(TRACT_PROBES)]
        d = pytrs.PLSSDesc(text, config=cfg)
        for rec in d.tracts_to_dict('trs', 'desc', 'lots', 'qqs', 'w_flags'):
            for v in rec.values():
                if isinstance(v, list):
                    v.append('garbage')
            rec.clear()
        for row in d.tracts_to_list('lots', 'qqs'):
            for v in row:
                v.append('garbage')
        d.list_trs().append('garbage')
        for t in d.tracts:
            t.lots.append('garbage')
            t.w_flags.append('garbage')
        d.tracts.pop()
    elif pi >= len(TRS_PROBES):
        desc, trs, cfg = TRACT_PROBES[pi - len(TRS_PROBES)]
        t = pytrs.Tract(desc, trs=trs, config=cfg, parse_qq=True)
        for v in t.to_dict('lots', 'qqs', 'lot_acres').values():
            v.clear()
        t.trs = '1n1w01'
    return None
