"""plss_abs.py -- shared S harness: the real plss_parse module (PLSSParser, PLSSChunker, ChunkParser, TwpRgeFinder,
SecFinder, deduce_layout, cleanup_desc, rebuild_sec_within, construct_tracts, gen_flags_chunk, the real SecUnpacker,
unpack_twprge and the real Tract) run by CrossHair on documents with provenance (engine/contracts.py), with the four
finder patterns replaced by contract patterns.  Used by C03, C04, C09, C10, C11, C20."""
from engine.contracts import Doc, DStr, tr_seg, sec_seg, install, restore

# fillers: description blocks / connectors between labelled segments (canonical, already preprocessed text)
FILLERS = (
    '',                 # 0 adjacent segments
    ' ',                # 1 white space only
    ' of ',             # 2 connector: 'of' (cull word; 'illegal' word before a section; a sec_twprge_in_between connector)
    ' NE ',             # 3 block shorter than MIN_REPORTABLE_UNUSED_LEN after clean-up
    ' NE/4 ',           # 4 ordinary block
    ' NE/4 of ',        # 5 block ending in a cull / 'illegal' word
    ', ',               # 6 comma connector
    ' W/2, less and except the wellbore\n',   # 7 block with warning triggers and a line break
    ': Lots 1 - 2; ',   # 8 colon-led block
    ' lying within ',   # 9 sec_twprge_in_between connector
)
FILL_Q = (0, 2, 3, 4)
FILL_T = (0, 1, 2, 3, 4, 5, 6, 7)
SEG_VARIANTS = ('TR', 'SEC:', 'SEC', 'SECS-:', 'SECS,', 'SEC3:')

MODES = {
    'default': {},
    'colon_required': {'require_colon': True},
    'colon_cautious': {'require_colon': 'sec_colon_cautious'},
    'segment': {'segment': True},
    'sec_within': {'sec_within': True},
    'segment_within': {'segment': True, 'sec_within': True},
    'TRS_desc': {'layout': 'TRS_desc'},
    'desc_STR': {'layout': 'desc_STR'},
    'S_desc_TR': {'layout': 'S_desc_TR'},
    'TR_desc_S': {'layout': 'TR_desc_S'},
    'copy_all': {'layout': 'copy_all'},
}


def make_seg(i, variant):
    v = SEG_VARIANTS[variant]
    if v == 'TR':
        return tr_seg(150 + i, 'N', 90 + i, 'W')
    if v == 'SEC:':
        return sec_seg([10 + i], True)
    if v == 'SEC':
        return sec_seg([10 + i], False)
    if v == 'SEC3:':
        return sec_seg([110 + i], True)
    if v == 'SECS-:':
        return sec_seg([10 + i, 12 + i], True, thru=True)
    return sec_seg([10 + i, 20 + i], False)


QUARTERS = ('NE', 'NW', 'SE', 'SW', 'N½SE', 'S½NW')


def filler_text(f, i):
    """filler f at position i; its words are made unique per position so that an oracle can tell the blocks apart"""
    return FILLERS[f].replace('NE', QUARTERS[i % len(QUARTERS)]).replace('W/2', ('W/2', 'E/2', 'S/2', 'N/2')[i % 4])


def build_doc(variants, fillers):
    segs = [make_seg(i, v) for i, v in enumerate(variants)]
    return Doc([filler_text(f, i) for i, f in enumerate(fillers)], segs)


def run_parser(doc, mode, source='SRC', parse_qq=False):
    """run the real PLSSParser on the document with the contract patterns installed"""
    import pytrs.parser.plssdesc.plss_parse as pp
    saved = install(pp)
    try:
        return pp.PLSSParser(text=doc.text(), source=source, parse_qq=parse_qq, **MODES[mode])
    finally:
        restore(pp, saved)


def make_target(mmax, fill_set, modes, oracle):
    """target(m, v0.., f0.., mode): symbolic shape of the document and parse mode; oracle(doc, mode, parser, exc) -> bool"""
    from engine.xh import choose
    nv = len(SEG_VARIANTS)
    modes = list(modes)

    def body(m, vs, fs, mode):
        m = choose(m, range(mmax + 1))
        variants = [choose(v, range(nv)) for v in vs[:m]]
        fillers = [choose(f, fill_set) for f in fs[:m + 1]]
        mode = choose(mode, modes)
        doc = build_doc(variants, fillers)
        try:
            parser = run_parser(doc, mode)
        except Exception as e:  # noqa
            return oracle(doc, mode, None, e)
        return oracle(doc, mode, parser, None)

    if mmax == 1:
        def target(m: int, v0: int, f0: int, f1: int, mode: int):
            return body(m, [v0], [f0, f1], mode)
    elif mmax == 2:
        def target(m: int, v0: int, v1: int, f0: int, f1: int, f2: int, mode: int):
            return body(m, [v0, v1], [f0, f1, f2], mode)
    elif mmax == 3:
        def target(m: int, v0: int, v1: int, v2: int, f0: int, f1: int, f2: int, f3: int, mode: int):
            return body(m, [v0, v1, v2], [f0, f1, f2, f3], mode)
    else:
        def target(m: int, v0: int, v1: int, v2: int, v3: int, f0: int, f1: int, f2: int, f3: int, f4: int, mode: int):
            return body(m, [v0, v1, v2, v3], [f0, f1, f2, f3, f4], mode)
    return target


def decode(args, mmax, fill_set, modes):
    """realised CrossHair arguments -> (variants, fillers, mode)"""
    def cl(x, n):
        return x if 0 <= x < n - 1 else n - 1
    m = cl(args['m'], mmax + 1)
    variants = [cl(args[f'v{i}'], len(SEG_VARIANTS)) for i in range(m)]
    fillers = [list(fill_set)[cl(args[f'f{i}'], len(fill_set))] for i in range(m + 1)]
    mode = list(modes)[cl(args['mode'], len(modes))]
    return variants, fillers, mode


# ------------------------------------------------------------------ invariants (pure functions of the result)
def flags_ok(obj):
    """C10: lists of str paired one-to-one with (flag, context) tuples of str"""
    for fl, ln in ((obj.w_flags, obj.w_flag_lines), (obj.e_flags, obj.e_flag_lines)):
        if not isinstance(fl, list) or not isinstance(ln, list) or len(fl) != len(ln):
            return False
        for f, l in zip(fl, ln):
            if not isinstance(f, str):
                return False
            if not (isinstance(l, tuple) and len(l) == 2 and isinstance(l[0], str) and isinstance(l[1], str)
                    and l[0] == f):
                return False
    return True


def covered_indexes(doc, parser):
    """document indexes that ended up in a tract description or in an unused_desc error flag (by provenance; for text
    whose provenance was lost by formatting, by content)"""
    cov = set()
    loose = []
    for t in parser.tracts:
        d = t.desc
        if isinstance(d, DStr) and d.off is not None:
            cov.update(range(d.off, d.off + len(d)))
        else:
            loose.append(str(d))
    for flag, ctx in parser.e_flag_lines:
        if isinstance(flag, str) and flag.startswith('unused_desc'):
            if isinstance(ctx, DStr) and ctx.off is not None:
                cov.update(range(ctx.off, ctx.off + len(ctx)))
            else:
                loose.append(str(ctx))
    return cov, loose
