"""C17 -- sorting is a stable multi-key permutation with errors last."""
from engine.framework import Ob, result, violation, from_explore

PROPERTY = 'C17'
LEVEL = 'other'
FILES = ['pytrs/parser/containers/containers.py']
ASSUMPTIONS = [
    'elements are Tract/TRS subclasses that bypass __init__ and expose twp_num/twp_ns/rge_num/rge_ew/sec_num (and the '
    'Tract creation counter) as symbolic values; a number is None exactly when its direction is None (error/undefined), '
    'as for every real TRS',
    'numbers range over 0..999 (sections 0..99), creation counters over 0..10^6 and pairwise distinct',
    'key strings are drawn from a concrete table (variable x sub-method x .rev/.reverse x spacing x case); the elements '
    'are what is symbolic',
]
EXPLANATION = ('CrossHair explores every ordering / tie pattern of symbolic element attributes through the real '
               '_TRSTractList.custom_sort/_sort_custom and compares with an independently written reference '
               '(fold of stable sorts, errors ranked +infinity) on every path; path tree exhausted = holds for all '
               'attribute values within the ranges.')

SINGLE = ['i', 't', 'r', 's', 't.num', 't.ns', 't.sn', 'r.num', 'r.we', 'r.ew', 's.num', 'i.num']
REVS = ['', '.rev', '.reverse']
MULTI_Q = ['t.ns,r.we', 's,t', 'r.ew.rev, t.sn', 'i,s,r,t', 's.rev,i', 'T.NS , S.Reverse']
MULTI_T = MULTI_Q + ['t,r,s', 'r.we,t.ns,s', 's,r,t.num.rev', 'i.rev,t', 't.sn.reverse,r.ew.rev,s.rev', 'r,s.rev',
                     't.ns.rev,r.we.rev']
INVALID = ['x', 'q.num', 'z.num', 't.ew', 't.we', 'r.ns', 'r.sn', 's.ns', 's.ew', 'i.ns', 'i.we', 't,x', 's.num,r.ns']
INF = 10 ** 9


def ref_rank(sub, e, uid):
    """documented comparator, written independently of the implementation"""
    var, _, method = sub.partition('.')
    method = method or 'num'
    if var == 'i':
        return uid
    if var == 's':
        return INF if e.sec_num is None else e.sec_num
    if var == 't':
        if e.twp_num is None:
            return INF
        if method == 'num':
            return e.twp_num
        n_first = -e.twp_num if e.twp_ns == 'n' else e.twp_num      # north-to-south
        return n_first if method == 'ns' else -n_first
    if var == 'r':
        if e.rge_num is None:
            return INF
        if method == 'num':
            return e.rge_num
        w_first = -e.rge_num if e.rge_ew == 'w' else e.rge_num      # west-to-east
        return w_first if method == 'we' else -w_first
    raise AssertionError(sub)


def parse_ref(key):
    out = []
    for k in key.lower().replace(' ', '').replace('reverse', 'rev').split(','):
        rev = k.endswith('.rev')
        if rev:
            k = k[:-4]
        out.append((k, rev))
    return out


def make_target(kind, n, key, with_reverse):
    from engine.xh import IgnoreAttempt
    from props.symobj import SymTRS, SymTract
    from pytrs.parser.containers.containers import TractList, TRSList

    keyvars = {k.strip()[0] for k in key.lower().split(',')}

    def build(vals):
        els = []
        uids = []
        for i in range(n):
            tn, td, rn, rd, sn, uid = vals[6 * i:6 * i + 6]
            # only the attributes the key looks at are symbolic; the others are fixed (they cannot influence the order)
            if 't' not in keyvars:
                tn, td = 7, 0
            if 'r' not in keyvars:
                rn, rd = 9, 1
            if 's' not in keyvars:
                sn = 11
            if 'i' not in keyvars or kind != 'tract':
                uid = 1000 - i
            if not (0 <= tn <= 999 and 0 <= rn <= 999 and 0 <= sn <= 100 and 0 <= td <= 2 and 0 <= rd <= 2
                    and 0 <= uid <= 10 ** 6):
                raise IgnoreAttempt
            tns = None if td == 2 else ('n' if td == 0 else 's')
            rew = None if rd == 2 else ('w' if rd == 0 else 'e')
            t = SymTRS(None if td == 2 else tn, tns, None if rd == 2 else rn, rew, None if sn == 100 else sn, i)
            if kind == 'tract':
                els.append(SymTract(uid, t, i))
            else:
                els.append(t)
            uids.append(uid if kind == 'tract' else 0)
        for i in range(n):
            for j in range(i + 1, n):
                if kind == 'tract' and uids[i] == uids[j]:
                    raise IgnoreAttempt
        return els, uids

    def check(vals, rev_all):
        els, uids = build(vals)
        lst = (TractList if kind == 'tract' else TRSList)(els)
        lst.custom_sort(key, reverse=rev_all)
        got = [e.tag for e in lst]
        if sorted(got) != list(range(n)):
            return False
        ref = list(els)
        uid_of = {id(e): u for e, u in zip(els, uids)}
        for sub, rev in parse_ref(key):
            ref = sorted(ref, key=lambda e: ref_rank(sub, e, uid_of[id(e)]), reverse=rev)
        if rev_all:
            ref.reverse()
        return got == [e.tag for e in ref]

    if n == 2:
        def target(a0: int, a1: int, a2: int, a3: int, a4: int, a5: int, b0: int, b1: int, b2: int, b3: int, b4: int,
                   b5: int, rev_all: bool):
            if not with_reverse and rev_all:
                raise IgnoreAttempt
            return check([a0, a1, a2, a3, a4, a5, b0, b1, b2, b3, b4, b5], rev_all)
    elif n == 3:
        def target(a0: int, a1: int, a2: int, a3: int, a4: int, a5: int, b0: int, b1: int, b2: int, b3: int, b4: int,
                   b5: int, c0: int, c1: int, c2: int, c3: int, c4: int, c5: int, rev_all: bool):
            if not with_reverse and rev_all:
                raise IgnoreAttempt
            return check([a0, a1, a2, a3, a4, a5, b0, b1, b2, b3, b4, b5, c0, c1, c2, c3, c4, c5], rev_all)
    else:
        def target(a0: int, a1: int, a2: int, a3: int, a4: int, a5: int, b0: int, b1: int, b2: int, b3: int, b4: int,
                   b5: int, c0: int, c1: int, c2: int, c3: int, c4: int, c5: int, d0: int, d1: int, d2: int, d3: int,
                   d4: int, d5: int, rev_all: bool):
            if not with_reverse and rev_all:
                raise IgnoreAttempt
            return check([a0, a1, a2, a3, a4, a5, b0, b1, b2, b3, b4, b5, c0, c1, c2, c3, c4, c5,
                          d0, d1, d2, d3, d4, d5], rev_all)
    return target


def ob_sort(ob):
    from engine.xh import explore
    kind, n, key = ob.params['kind'], ob.params['n'], ob.params['key']
    target = make_target(kind, n, key, ob.params.get('with_reverse', False))
    st = explore(target, timeout=ob.params.get('cap', 200), max_viol=2)
    info = dict(bound=f'{n} {kind} elements, key={key!r}',
                samples=[{'key': key, 'container': kind, 'elements': n, 'paths': st['paths']}])

    def mk(vs):
        viols = []
        for v in vs:
            a = v['args']
            names = 'abcd'[:n]
            els = [[a[f'{c}{j}'] for j in range(6)] for c in names]
            viols.append(violation(f'sort:{_norm(key)}', f'custom_sort({key!r}, reverse={a.get("rev_all")}) on {kind} '
                                   f'elements {els} differs from the stable multi-key reference; exc={v["exc"]}',
                                   'c17_sort', {'kind': kind, 'key': key, 'els': els, 'rev_all': bool(a.get('rev_all'))}))
        return viols
    return from_explore(st, info, mk)


def _norm(key):
    return key.lower().replace(' ', '').replace('reverse', 'rev')


def ob_invalid(ob):
    """every key naming no known variable, or a direction that does not apply, raises ValueError and leaves the list
    unchanged (2 symbolic elements so that no sort is skipped for lack of work)"""
    from engine.xh import explore, IgnoreAttempt
    from props.symobj import SymTRS, SymTract
    from pytrs.parser.containers.containers import TractList, TRSList
    keys = ob.params['keys']

    def target(ki: int, kind: int, tn0: int, tn1: int, sn0: int, sn1: int):
        if not (0 <= ki < len(keys) and 0 <= kind < 2 and 0 <= tn0 <= 999 and 0 <= tn1 <= 999 and 0 <= sn0 <= 99
                and 0 <= sn1 <= 99):
            raise IgnoreAttempt
        key = None
        for i, k in enumerate(keys):
            if ki == i:
                key = k
        els = [SymTRS(tn0, 'n', 5, 'w', sn0, 0), SymTRS(tn1, 's', 6, 'e', sn1, 1)]
        if kind:
            els = [SymTract(i, e, i) for i, e in enumerate(els)]
        lst = (TractList if kind else TRSList)(els)
        try:
            lst.custom_sort(key)
        except ValueError:
            return True
        return False

    st = explore(target, timeout=ob.params.get('cap', 200), max_viol=3)
    info = dict(bound=f'keys {keys}', samples=[{'invalid_keys': keys}])
    return from_explore(st, info, lambda vs: [
        violation(f'sort-invalid-key:{keys[v["args"]["ki"]]}',
                  f'custom_sort({keys[v["args"]["ki"]]!r}) did not raise ValueError ({v["exc"]})', 'c17_invalid',
                  {'key': keys[v['args']['ki']], 'tract': bool(v['args']['kind'])}) for v in vs])


def _multi_n(key, quick):
    """elements for a multi-key obligation: 3, but 2 when the key looks at both a township and a range (quick) or at three or
    more variables (either tier) -- the number of ordering / tie / error patterns grows too fast otherwise"""
    vars_ = {k.strip()[0] for k in key.lower().split(',')}
    if len(vars_) >= 3:
        return 2
    if quick and 't' in vars_ and 'r' in vars_:
        return 2
    return 3


def obligations(tier):
    q = tier == 'quick'
    obs = []
    n1 = 3
    for base in SINGLE:
        for rv in (REVS if not q else ['', '.rev'] if base not in ('t.ns', 'r.we', 's') else REVS):
            key = base + rv
            for kind in (('tract',) if base.startswith('i') else ('tract', 'trs') if not q else ('tract' if len(obs) % 2 else 'trs',)):
                obs.append(Ob(f'sort_{kind}_{key}', 'S', ob_sort, f'single key {key} on {n1} {kind} elements',
                              functions=['_TRSTractList.custom_sort', '_TRSTractList._sort_custom', '_TRSTractList.sort'],
                              weight=3, timeout=900, params={'kind': kind, 'n': n1, 'key': key, 'cap': 600,
                                                             'with_reverse': base in ('t.ns', 's', 'i')}))
    for key in (MULTI_Q if q else MULTI_T):
        obs.append(Ob(f'sort_multi_{_norm(key)}', 'S', ob_sort, f'multi key {key}',
                      functions=['_TRSTractList.custom_sort', '_TRSTractList._sort_custom'], weight=6, timeout=1800,
                      params={'kind': 'tract', 'n': _multi_n(key, q), 'key': key,
                              'cap': 1500, 'with_reverse': False}))
    if not q:
        for key in ('t.ns', 'r.we', 's', 'i', 's,i', 't.sn.rev'):
            obs.append(Ob(f'sort4_{_norm(key)}', 'S', ob_sort, f'4 elements, key {key}',
                          functions=['_TRSTractList.custom_sort', '_TRSTractList._sort_custom'], weight=9,
                          timeout=3000, params={'kind': 'tract', 'n': 4, 'key': key, 'cap': 2700, 'with_reverse': False}))
    obs.append(Ob('invalid_keys', 'S', ob_invalid, 'unknown variables / inapplicable directions raise ValueError',
                  functions=['_TRSTractList._sort_custom (parse_key)'], weight=2, timeout=900,
                  params={'keys': INVALID, 'cap': 600}))
    return obs
