"""wf_docs.py -- well-formed single-layout documents (provenance Docs) and their expected tracts, written from the four
documented layouts (readme / guides/plssdesc.md): the oracle for 'documented layouts parse back to exactly their tracts'.
Used by C20 (mode conservativeness) and by the S half of C01."""
from engine.contracts import Doc, tr_seg, sec_seg

BLOCKS = ('NE/4', 'Lots 1 - 2', 'W/2, less and except the wellbore', 'that part lying north of the river', 'N/2SW/4, SE/4',
          'NE/4 and all rights therein', 'the south 40 acres thereof', 'SW/4 as aforesaid', 'E/2 lying west of the drain')
SEPS = (', ', '\n', '; ')
LAYOUTS = ('TRS_desc', 'desc_STR', 'S_desc_TR', 'TR_desc_S')


def build(layout, n_tr, n_sec, block_ix, multi_first, colon, sep_ix):
    """returns (Doc, expected) where expected = [(trs, desc), ...] in reading order.
    n_tr Twp/Rge groups, each with n_sec section groups; the first section group of each Twp/Rge group uses block
    BLOCKS[block_ix[g]] and is a multi-section 'through' range if multi_first; `colon` only matters where the layout writes one."""
    fillers = ['']
    segs = []
    expected = []
    sep = SEPS[sep_ix]

    def secseg(g, k):
        nums = [10 * (g + 1) + k] if not (multi_first and k == 0) else [10 * (g + 1), 10 * (g + 1) + 2]
        return sec_seg(nums, colon and layout in ('TRS_desc', 'S_desc_TR'), thru=len(nums) > 1)

    def blk(g, k):
        return BLOCKS[block_ix[g]] if k == 0 else BLOCKS[(block_ix[g] + 1 + k) % len(BLOCKS)]

    for g in range(n_tr):
        tr = tr_seg(150 + g, 'N', 90 + g, 'W')
        last_group = g == n_tr - 1
        if layout == 'TRS_desc':
            segs.append(tr)
            fillers.append(' ' if g or True else ' ')
            for k in range(n_sec):
                s = secseg(g, k)
                segs.append(s)
                last = last_group and k == n_sec - 1
                fillers.append((' ' if s.data['colon'] else ' ') + blk(g, k) + ('' if last else sep))
                expected += [(tr.data['twprge'] + x, blk(g, k)) for x in s.data['secs']]
        elif layout == 'TR_desc_S':
            segs.append(tr)
            for k in range(n_sec):
                s = secseg(g, k)
                fillers.append((' ' if k == 0 else sep) + blk(g, k) + ' of ')
                segs.append(s)
                expected += [(tr.data['twprge'] + x, blk(g, k)) for x in s.data['secs']]
            fillers.append('' if last_group else sep)
        elif layout == 'desc_STR':
            for k in range(n_sec):
                s = secseg(g, k)
                lead = fillers.pop() if True else ''
                fillers.append(lead + blk(g, k) + ' of ')
                segs.append(s)
                fillers.append(', ')
                expected += [(tr.data['twprge'] + x, blk(g, k)) for x in s.data['secs']]
            segs.append(tr)
            fillers.append('' if last_group else sep)
        else:  # S_desc_TR
            for k in range(n_sec):
                s = secseg(g, k)
                segs.append(s)
                fillers.append(' ' + blk(g, k) + ', ')
                expected += [(tr.data['twprge'] + x, blk(g, k)) for x in s.data['secs']]
            segs.append(tr)
            fillers.append('' if last_group else sep)
    return Doc(fillers, segs), expected


def observed(parser):
    return [(t.trs, str(t.desc)) for t in parser.tracts]
