"""C07 -- aliquot spelling does not matter and preprocessing is a fixed point."""
from engine.framework import Ob, result, violation, from_explore

PROPERTY = 'C07'
LEVEL = 'model_checking'
FILES = ['pytrs/parser/tract/tract_preprocess.py', 'pytrs/parser/rgxlib/aliquots.py', 'pytrs/parser/tract/tract.py']
ASSUMPTIONS = [
    'documented spellings: spec/aliquot_spellings.py (10 per component, 3 casings); joiners " ", " of ", " of the " and the empty joiner '
    'only after a spelling ending in a fraction sign or digit; right context: end of text, white space, , . ; or another component',
    'contexts around a spelling: <= K characters, not a word character next to the spelling',
    'the substitute-until-stable glue (sub_scrubber, half_plus_q_scrubber, remove_aliquot_interveners) calls re.sub with the compiled '
    'pattern objects and cannot take contract stubs; its composition is checked on rendered chains through the public API by engine S',
]
EXPLANATION = ('z3 (exact bounded model of CPython matching) decides on each live scrubber pattern that every documented spelling of '
               'its component, in any short context, is matched exactly; that no scrubber matches inside another component\'s spelling; '
               'that canonical text is a fixed point of every scrubber (clean_qq scrubbers re-match exactly the canonical token); and the '
               'group contract of half_plus_q_regex and aliquot_intervener_remover_regex. CrossHair runs rendered chains (independent '
               'spelling per component, joiner, clean_qq, depth settings) through the real Tract.')

CTXCH = None


def _ctx():
    from engine.rx import UCHARS
    return [c for c in UCHARS if c not in '½¼']


def ob_m_self(ob):
    """scrubber P_X on ctx . spelling(X) . ctx: first match == the spelling"""
    import time
    import z3
    import pytrs.parser.rgxlib as R
    from engine.matcher import Text, Matcher, WORD, validate
    from engine.templates import Template, Alt, Fill
    from spec import aliquot_spellings as A
    comp, K = ob.params['comp'], ob.params['K']
    pname = A.SCRUBBER_OF[comp]
    pat = getattr(R, pname)
    sp = A.spellings(comp)
    ag, tot, bad = validate(pat, [f'x {s}, y' for s in sp] + ['N 2° 37\'', 'Lot 2, N2 W2', 'NE/4NW/4', 'none'], 30)
    if bad:
        return result('error', notes=[f'translator validation {bad[:2]}'], validated=tot)
    N = max(len(s) for s in sp) + 2 * K
    T = Text(N)
    tpl = Template([Fill('pre', _ctx(), 0, K, last_not=list(WORD) + ['½', '¼']), Alt('sp', sp, cases=True),
                    Alt('stop', ['', ' ', ',', '.', ';', '\n']), Fill('post', _ctx(), 0, K)], T)
    # finditer by induction: the search is resumed at the start of the spelling (the leading context may itself hold a spelling)
    P = z3.Int('pos')
    M = Matcher(pat, T, pos=P)
    sol = z3.Solver()
    sol.set('timeout', ob.params.get('cap', 600) * 1000)
    sol.add(*(T.wf() + tpl.cons + M.cons))
    sol.add(P == tpl.lo('sp'))
    # the right context the property allows: end of text or one of the stop characters
    sol.add(z3.Or(tpl.hi('stop') > tpl.lo('stop'), tpl.hi('post') == tpl.lo('post')))
    t0 = time.time()
    twin = str(sol.check())
    sample = T.value(sol.model()) if twin == 'sat' else None
    if twin != 'sat':
        return result('error', notes=['twin ' + twin], queries=1)
    sol.add(z3.Not(z3.And(M.matched, M.startv == tpl.lo('sp'), M.endv == tpl.hi('sp'))))
    r = str(sol.check())
    dt = time.time() - t0
    info = dict(queries=2, distinct=1, solver_s=round(dt, 2), validated=tot, states=M.n_states, transitions=M.n_transitions,
                bound=f'{pname}: {len(sp)} spellings of {comp} x 3 casings, contexts <= {K} chars, N={N}', samples=[{'instance': sample, 'answer': r}])
    if r == 'unsat':
        return result('holds', **info)
    if r != 'sat':
        return result('inconclusive', notes=[r], **info)
    w = T.value(sol.model())
    s = tpl.chosen('sp', sol.model())
    return result('violated', violations=[violation(f'aliquot-spelling:{comp}:{s.lower()}', f'{pname} does not match the spelling {s!r} of {comp} exactly in {w!r}',
                                                    'c07_text', {'text': w, 'expect_in_pp': A.canonical(comp), 'clean_qq': False})], **info)


def ob_m_cross(ob):
    """no other basic scrubber matches inside a spelling of component X"""
    import time
    import z3
    import pytrs.parser.rgxlib as R
    from engine.matcher import Text, Matcher, WORD
    from engine.templates import Template, Alt, Fill
    from spec import aliquot_spellings as A
    comp, K = ob.params['comp'], ob.params['K']
    sp = A.spellings(comp)
    N = max(len(s) for s in sp) + 2 * K
    T = Text(N)
    tpl = Template([Fill('pre', _ctx(), 0, K, last_not=list(WORD) + ['½', '¼']), Alt('sp', sp, cases=True),
                    Alt('stop', ['', ' ', ',', '.', ';', '\n']), Fill('post', ' ,.;\n', 0, K)], T)
    base = T.wf() + tpl.cons
    others = [A.SCRUBBER_OF[c] for c in A.COMPONENTS if c != comp]
    t0 = time.time()
    q = 0
    states = trans = 0
    for pname in others:
        M = Matcher(getattr(R, pname), T, prefix=pname)
        sol = z3.Solver()
        sol.set('timeout', ob.params.get('cap', 300) * 1000)
        sol.add(*(base + M.cons))
        sol.add(M.reach_start_in(tpl.lo('sp'), tpl.hi('sp')))
        r = str(sol.check())
        q += 1
        states += M.n_states
        trans += M.n_transitions
        if r == 'sat':
            w = T.value(sol.model())
            s = tpl.chosen('sp', sol.model())
            return result('violated', queries=q, solver_s=round(time.time() - t0, 2), states=states, transitions=trans,
                          violations=[violation(f'aliquot-cross:{comp}:{pname}', f'{pname} matches inside the spelling {s!r} of {comp} in {w!r}',
                                                'c07_text', {'text': w, 'expect_in_pp': A.canonical(comp), 'clean_qq': False})])
        if r != 'unsat':
            return result('inconclusive', notes=[f'{pname}: {r}'], queries=q)
    return result('holds', queries=q, distinct=q, solver_s=round(time.time() - t0, 2), states=states, transitions=trans,
                  bound=f'spellings of {comp} vs the 7 other basic scrubbers, contexts <= {K}, N={N}', samples=[{'component': comp, 'others': others}])


def ob_m_fixed(ob):
    """canonical chains are a fixed point: a basic scrubber has no match; a clean_qq scrubber matches only whole canonical tokens"""
    import time
    import z3
    import pytrs.parser.rgxlib as R
    from engine.matcher import Text, Matcher, WORD
    from engine.templates import Template, Alt, Fill
    from spec import aliquot_spellings as A
    pname, K = ob.params['pattern'], ob.params['K']
    pat = getattr(R, pname)
    canon = [A.canonical(c) for c in A.COMPONENTS]
    N = 3 * 3 + 2 * K
    T = Text(N)
    tpl = Template([Fill('pre', ' ,.;\n', 0, K), Alt('c0', canon), Alt('c1', canon + ['']), Alt('c2', canon + ['']), Fill('post', ' ,.;\n', 0, K)], T)
    M = Matcher(pat, T)
    sol = z3.Solver()
    sol.set('timeout', ob.params.get('cap', 300) * 1000)
    sol.add(*(T.wf() + tpl.cons + M.cons))
    t0 = time.time()
    twin = str(sol.check())
    if twin != 'sat':
        return result('error', notes=['twin ' + twin], queries=1)
    # a scrubber may re-match a canonical token of its own component (the substitution is then the identity); nothing else
    comp = pname[:2].upper() if pname[1] in 'ew' else pname[0].upper()
    tok = A.canonical(comp)
    whole = z3.Or(*[z3.And(M.startv == tpl.lo(c), M.endv == tpl.hi(c), tpl.hi(c) - tpl.lo(c) == len(tok),
                           *[T.at(tpl.lo(c) + k) == ord(ch) for k, ch in enumerate(tok)]) for c in ('c0', 'c1', 'c2')])
    sol.add(M.matched, z3.Not(whole))
    r = str(sol.check())
    dt = time.time() - t0
    info = dict(queries=2, distinct=1, solver_s=round(dt, 2), states=M.n_states, transitions=M.n_transitions,
                bound=f'{pname} on canonical chains of 1..3 components in separator contexts <= {K}', samples=[{'pattern': pname, 'answer': r}])
    if r == 'unsat':
        return result('holds', **info)
    if r != 'sat':
        return result('inconclusive', notes=[r], **info)
    w = T.value(sol.model())
    return result('violated', violations=[violation(f'aliquot-fixed-point:{pname}', f'{pname} matches inside canonical text {w!r}', 'c07_text',
                                                    {'text': w, 'expect_in_pp': w.strip(' ,.;\n'), 'clean_qq': pname.endswith('_clean')})], **info)


def ob_m_chain(ob):
    """group contracts of half_plus_q_regex and aliquot_intervener_remover_regex on canonical components with joiners"""
    import time
    import z3
    import pytrs.parser.rgxlib as R
    from engine.matcher import Text, Matcher, validate
    from engine.templates import Template, Alt, Fill
    from spec import aliquot_spellings as A
    which = ob.params['which']
    halves = [A.canonical(c) for c in 'NSEW']
    canon = [A.canonical(c) for c in A.COMPONENTS]
    joiners = [' ', ' of ', ' of the ', '', '  ', ' OF THE ']
    T = Text(24)
    if which == 'half_plus_q':
        pat = R.half_plus_q_regex
        tpl = Template([Alt('pre', ['', ' ', 'x, ']), Alt('half', halves), Alt('j', joiners), Alt('q', ['NE', 'NW', 'SE', 'SW'], cases=True),
                        Alt('post', ['', ' ', ',', '.', ';', ' x']), ], T)
    else:
        pat = R.aliquot_intervener_remover_regex
        tpl = Template([Alt('pre', ['', ' ', 'x, ']), Alt('a1', canon), Alt('j', [j for j in joiners if j]), Alt('a2', canon), Alt('post', ['', ' ', ',', ' x'])], T)
    ag, tot, bad = validate(pat, ['E½NE', 'N½ of the SW', 'N½ NE¼', 'N½ of NE¼ of the SW¼', 'x'], 24)
    if bad:
        return result('error', notes=[f'translator validation {bad[:2]}'], validated=tot)
    M = Matcher(pat, T)
    sol = z3.Solver()
    sol.set('timeout', 600000)
    sol.add(*(T.wf() + tpl.cons + M.cons))
    t0 = time.time()
    twin = str(sol.check())
    if twin != 'sat':
        return result('error', notes=['twin ' + twin], queries=1)
    if which == 'half_plus_q':
        qo, qc = M.span('quarter_aliquot_rightmost')
        ho, hc = M.span('half_aliquot')
        good = z3.And(M.matched, M.startv == tpl.lo('half'), M.endv == tpl.hi('q'), qo == tpl.lo('q'), qc == tpl.hi('q'), ho == tpl.lo('half'), hc == tpl.hi('half'))
    else:
        a1o, a1c = M.span('aliquot1')
        a2o, a2c = M.span('aliquot2')
        good = z3.And(M.matched, M.startv == tpl.lo('a1'), M.endv == tpl.hi('a2'), a1o == tpl.lo('a1'), a1c == tpl.hi('a1'), a2o == tpl.lo('a2'), a2c == tpl.hi('a2'))
    sol.add(z3.Not(good))
    r = str(sol.check())
    dt = time.time() - t0
    info = dict(queries=2, distinct=1, solver_s=round(dt, 2), validated=tot, states=M.n_states, transitions=M.n_transitions,
                bound=f'{which}: canonical component, joiner from {joiners}, second component, 3-6 contexts', samples=[{'pattern': which, 'answer': r}])
    if r == 'unsat':
        return result('holds', **info)
    if r != 'sat':
        return result('inconclusive', notes=[r], **info)
    w = T.value(sol.model())
    return result('violated', violations=[violation(f'aliquot-chain:{which}', f'{which}: groups do not sit on the components of {w!r}', 'c07_text',
                                                    {'text': w, 'expect_in_pp': None, 'clean_qq': False})], **info)


# ------------------------------------------------------------------ S: rendered chains through the real Tract
def expected_pp(chain):
    from spec import aliquot_spellings as A
    return ''.join(A.canonical(c) for c in chain)


def chain_verdict(text, chain, cfg):
    import pytrs
    t = pytrs.Tract(text, parse_qq=True, config=cfg)
    canon = expected_pp(chain)
    ref = pytrs.Tract(canon, parse_qq=True, config=cfg)
    if canon not in t.pp_desc:
        return f'pp_desc {t.pp_desc!r} lacks the canonical text {canon!r}'
    if t.qqs != ref.qqs or t.lots != ref.lots:
        return f'qqs {t.qqs} differ from those of the canonical text {ref.qqs}'
    again = pytrs.Tract(t.pp_desc, parse_qq=True, config=cfg)
    if again.pp_desc != t.pp_desc or again.qqs != t.qqs:
        return f'not a fixed point: {t.pp_desc!r} -> {again.pp_desc!r}'
    if t.preprocess() != t.pp_desc:
        return 'preprocess() disagrees with pp_desc'
    return None


def ob_api_chains(ob):
    from engine.xh import explore, choose
    from spec import aliquot_spellings as A
    n = ob.params['n']
    first = ob.params.get('first')
    second = ob.params.get('second')
    small = ob.params.get('small', False)
    cfgs = ('', 'clean_qq') if small else ('', 'clean_qq', 'qq_depth_min.3,break_halves') if n > 1 else ('', 'clean_qq', 'qq_depth.1', 'qq_depth_min.3,break_halves', 'clean_qq,qq_depth_max.2')
    cases = (0, 1, 2)
    comps2 = ('S', 'W', 'NW', 'SE') if small else A.COMPONENTS
    sp2 = (0, 1, 4, 6, 8) if small else tuple(range(10))

    def build(cs, sps, js, case, cfg=''):
        chain = []
        for i, c in enumerate(cs):
            if i == 0 and first is not None:
                chain.append(first)
            elif i == 1 and second is not None:
                chain.append(second)
            else:
                chain.append(choose(c, A.COMPONENTS if i == 0 else comps2))
        parts = []
        for i, c in enumerate(chain):
            k = choose(sps[i], (tuple(range(10)) if i == 0 else sp2) + (10,))
            if k == 10:     # the bare two-letter quarter: an aliquot only under clean_qq or directly after a half
                if c in A.QUARTERS and ('clean_qq' in cfg or (i > 0 and chain[i - 1] in A.HALVES)):
                    sp = c
                else:
                    sp = A.spellings(c)[0]
            else:
                sp = A.spellings(c)[k]
            sp = (sp, sp.lower(), sp.upper())[case]
            if i > 0:
                j = choose(js[i - 1], A.JOINERS)
                if j == '' and not A.ends_tight(parts[-1]):
                    j = ' '
                parts.append(j)
            parts.append(sp)
        return chain, ''.join(parts)

    def run(cs, sps, js, case, ci):
        cfg = choose(ci, cfgs)
        chain, text = build(cs, sps, js, choose(case, cases), cfg)
        return chain_verdict(text, chain, cfg) is None

    if n == 1:
        def target(c0: int, s0: int, case: int, ci: int):
            return run([c0], [s0], [], case, ci)
    elif n == 2:
        def target(c0: int, c1: int, s0: int, s1: int, j0: int, case: int, ci: int):
            return run([c0, c1], [s0, s1], [j0], case, ci)
    else:
        def target(c0: int, c1: int, c2: int, s0: int, s1: int, s2: int, j0: int, j1: int, case: int, ci: int):
            return run([c0, c1, c2], [s0, s1, s2], [j0, j1], case, ci)
    st = explore(target, timeout=ob.params.get('cap', 2000), max_viol=4)
    info = dict(bound=f'chains of {n} components' + (f' starting with {first}' if first else '') + ', 10 spellings each, 4 joiners, 3 casings, 5 configs',
                samples=[{'text': 'North Half of the NE/4', 'config': 'clean_qq'}])
    cl = lambda x, k: x if 0 <= x < k - 1 else k - 1

    def mk(vs):
        out = []
        for v in vs[:3]:
            a = v['args']
            cfg = cfgs[cl(a['ci'], len(cfgs))]
            chain = []
            for i in range(n):
                if i == 0 and first is not None:
                    chain.append(first)
                elif i == 1 and second is not None:
                    chain.append(second)
                else:
                    tab = A.COMPONENTS if i == 0 else comps2
                    chain.append(tab[cl(a[f'c{i}'], len(tab))])
            parts = []
            case = cl(a['case'], 3)
            for i, c in enumerate(chain):
                tab = (tuple(range(10)) if i == 0 else sp2) + (10,)
                k = tab[cl(a[f's{i}'], len(tab))]
                if k == 10:
                    sp = c if (c in A.QUARTERS and ('clean_qq' in cfg or (i > 0 and chain[i - 1] in A.HALVES))) else A.spellings(c)[0]
                else:
                    sp = A.spellings(c)[k]
                sp = (sp, sp.lower(), sp.upper())[case]
                if i > 0:
                    j = A.JOINERS[cl(a[f'j{i - 1}'], 4)]
                    if j == '' and not A.ends_tight(parts[-1]):
                        j = ' '
                    parts.append(j)
                parts.append(sp)
            text = ''.join(parts)
            out.append(violation('aliquot-api-chain', f'Tract({text!r}, config={cfg!r}): {chain_verdict(text, chain, cfg)}; {v["exc"]}', 'c07_chain',
                                 {'text': text, 'chain': chain, 'cfg': cfg}))
        return out
    return from_explore(st, info, mk)


def ob_api_bare(ob):
    """a bare two-letter quarter is an aliquot only under clean_qq or directly after a half"""
    from engine.xh import explore, choose
    import pytrs
    quarters = ('NE', 'NW', 'SE', 'SW', 'ne', 'Sw')
    halves = ('N/2', 'S½', 'East Half of the', 'W2 of')

    def target(qi: int, hi: int, after_half: bool, clean: bool, ctx: int):
        q = choose(qi, quarters)
        pre, post = choose(ctx, (('', ''), ('Lot 1, ', ''), ('', ', Lot 2'), ('that part of the ', ' lying north')))
        text = pre + ((choose(hi, halves) + ' ') if after_half else '') + q + post
        t = pytrs.Tract(text, parse_qq=True, config='clean_qq' if clean else '')
        is_aliquot = (q.upper() + '¼') in t.pp_desc
        return is_aliquot == bool(after_half or clean)

    st = explore(target, timeout=600, max_viol=4)
    info = dict(bound='6 bare quarters x 4 preceding halves or none x clean_qq on/off x 4 contexts', samples=[{'text': 'N/2 NE', 'clean_qq': False, 'expected': 'N½NE¼'}])
    cl = lambda x, k: x if 0 <= x < k - 1 else k - 1

    def mk(vs):
        out = []
        for v in vs[:3]:
            a = v['args']
            q = quarters[cl(a['qi'], 6)]
            pre, post = (('', ''), ('Lot 1, ', ''), ('', ', Lot 2'), ('that part of the ', ' lying north'))[cl(a['ctx'], 4)]
            text = pre + ((halves[cl(a['hi'], 4)] + ' ') if a['after_half'] else '') + q + post
            out.append(violation('bare-quarter', f'Tract({text!r}, clean_qq={bool(a["clean"])}): bare quarter {"not " if a["after_half"] or a["clean"] else ""}expected to be an aliquot',
                                 'c07_bare', {'text': text, 'clean': bool(a['clean']), 'expect': bool(a['after_half'] or a['clean']), 'q': q.upper()}))
        return out
    return from_explore(st, info, mk)


def obligations(tier):
    q = tier == 'quick'
    from spec import aliquot_spellings as A
    obs = []
    K = 2 if q else 4
    for comp in A.COMPONENTS:
        obs.append(Ob(f'm_self_{comp}', 'M', ob_m_self, f'{A.SCRUBBER_OF[comp]} matches every spelling of {comp} exactly', functions=[A.SCRUBBER_OF[comp]],
                      weight=8, timeout=4000, params={'comp': comp, 'K': K, 'cap': 1500 if q else 3600}))
    for comp in A.COMPONENTS:
        obs.append(Ob(f'm_cross_{comp}', 'M', ob_m_cross, f'no other scrubber matches inside a spelling of {comp}', functions=list(A.PIPELINE),
                      weight=9, timeout=6000, params={'comp': comp, 'K': 1 if q else 2, 'cap': 600 if q else 1500}))
    for pname in list(A.PIPELINE) + list(A.CLEAN_OF.values()):
        obs.append(Ob(f'm_fixed_{pname}', 'M', ob_m_fixed, f'canonical chains are a fixed point of {pname}', functions=[pname], weight=5,
                      timeout=3000, params={'pattern': pname, 'K': 1 if q else 2, 'cap': 600 if q else 1500}))
    for which in ('half_plus_q', 'intervener_remover'):
        obs.append(Ob(f'm_chain_{which}', 'M', ob_m_chain, f'group contract of {which}', functions=['half_plus_q_regex' if which == 'half_plus_q' else 'aliquot_intervener_remover_regex'],
                      weight=6, timeout=3000, params={'which': which}))
    S = ['scrub_aliquots', 'sub_scrubber', 'half_plus_q_scrubber', 'process_half_plus_q_match', 'remove_aliquot_interveners', 'TractPreprocessor', 'Tract.parse']
    obs.append(Ob('api_chain_1', 'S', ob_api_chains, 'single components: every spelling x casing x config', functions=S, weight=4, timeout=3000, params={'n': 1, 'cap': 2700}))
    if q:
        for comp in ('N', 'E', 'NE', 'SW'):
            obs.append(Ob(f'api_chain_2_{comp}', 'S', ob_api_chains, f'two-component chains starting with {comp}', functions=S, weight=8, timeout=7000,
                          params={'n': 2, 'first': comp, 'cap': 6500, 'small': True}))
    else:
        for c1 in A.COMPONENTS:
            for c2 in A.COMPONENTS:
                obs.append(Ob(f'api_chain_2_{c1}_{c2}', 'S', ob_api_chains, f'chains {c1} + {c2}: every spelling pair x joiner x casing x config', functions=S,
                              weight=8, timeout=7000, params={'n': 2, 'first': c1, 'second': c2, 'cap': 6500}))
    obs.append(Ob('api_bare_quarter', 'S', ob_api_bare, 'bare quarter is an aliquot only under clean_qq or after a half', functions=S, weight=3, timeout=1500))
    return obs
