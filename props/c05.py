"""C05 -- elided lists of sections and lots expand to exactly the numbers they denote."""
from engine.framework import Ob, result, violation, from_explore

PROPERTY = 'C05'
LEVEL = 'model_checking'
FILES = ['pytrs/parser/unpack/unpackers.py', 'pytrs/parser/rgxlib/sec.py', 'pytrs/parser/rgxlib/lots.py',
         'pytrs/parser/rgxlib/misc.py', 'pytrs/parser/plssdesc/plss_preprocess.py', 'pytrs/parser/tract/tract_parse.py']
ASSUMPTIONS = [
    'list spellings are those of DESIGN.md Appendix A: range connectives "-", " - ", en dash, em dash, " through ", " thru ", " to "; '
    'conjunctions ", ", " and ", ", and ", " & ", ","; keyword singular / plural / abbreviated / symbol, optionally repeated after '
    'a connective; numbers 1-2 digits for sections, 1-3 for lots',
    'assume/guarantee: engine M proves on the live multisec_regex / multilot_regex, for every list of the template, (a) the whole list '
    'is matched with `*num` = first number, `*num_rightmost` = last number and the `intervener` group at a fixed offset inside the last '
    'connective, (b) cut at that offset (endpos) the same pattern matches exactly the list without its last item; engine S runs the '
    'real right-to-left loops of SecUnpacker / LotUnpacker over a contract pattern with exactly that behaviour',
    'chained ranges (a - b - c) are outside the oracle',
]
EXPLANATION = ('z3 decides, over all strings of the list template up to N characters, which span and groups CPython returns for the live '
               'list patterns (with and without endpos); CrossHair explores the real expansion loops over the proved contract and the '
               'public API on rendered lists; oracle = fold over items written from the list semantics.')

THRU = ['-', ' - ', '–', '—', ' through ', ' thru ', ' to ']
AND = [', ', ' and ', ', and ', ' & ', ',']
SEPS = THRU + AND
INT_OFF = {', and ': 2}          # offset of the (last iteration of the) intervener group inside the connective
SEC_WORDS = ['Sec ', 'Section ', 'Sections ', 'Secs ', 'Sec. ', 'Secs. ', '§ ', '§', 'Sect. ']
SEC_REPEAT = ['Sec ', 'Section ', 'Secs ']
LOT_WORDS = ['Lot ', 'Lots ', 'L', 'L.', 'Lt ', 'Lts ', 'Lt. ', 'Lot', 'Lots']
LOT_REPEAT = ['Lot ', 'Lots ', 'L']


def int_off(kind, sep):
    """offset of the (last iteration of the) intervener group inside the connective: a lot match swallows the white space
    that follows its number, and in ', and ' the group keeps only its last iteration 'and '"""
    lead = (len(sep) - len(sep.lstrip())) if kind == 'lot' else 0
    return lead + INT_OFF.get(sep, 0)


def _list_template(T, kind, k):
    from engine.templates import Template, Alt, Digits, Opt
    words, rep = (SEC_WORDS, SEC_REPEAT) if kind == 'sec' else (LOT_WORDS, LOT_REPEAT)
    nd = 2 if kind == 'sec' else 3
    segs = [Alt('word0', words), Digits('n0', 1, nd)]
    for i in range(1, k):
        segs += [Alt(f'sep{i}', SEPS), Opt(f'rep{i}', [Alt(f'word{i}', rep)]), Digits(f'n{i}', 1, nd)]
    if kind == 'sec':
        segs += [Alt('colon', ['', ':', ' :'])]
    return Template(segs, T)


def ob_m_list(ob):
    import time
    import z3
    import pytrs.parser.rgxlib as R
    from engine.matcher import Text, Matcher, validate
    kind, k, N = ob.params['kind'], ob.params['k'], ob.params['N']
    pat = R.multisec_regex if kind == 'sec' else R.multilot_regex
    num, numr = ('secnum', 'secnum_rightmost') if kind == 'sec' else ('lotnum', 'lotnum_rightmost')
    samples = ['Sec 02, and 31', 'Sections 1 - 3, and 5', 'Sec 14:', 'Secs 1 thru 3 :', '§§ 1, 2'] if kind == 'sec' else \
        ['Lots 1 - 3', 'Lot 1, Lot 2 and L3', 'L1', 'Lts. 1 & 2', 'Lot 1 through Lot 3']
    ag, tot, bad = validate(pat, samples, 26)
    ag2, tot2, bad2 = validate(pat, samples[:2], 26, endpos=7)
    if bad or bad2:
        return result('error', notes=[f'translator validation: {(bad + bad2)[:2]}'], validated=tot + tot2)
    T = Text(N)
    tpl = _list_template(T, kind, k)
    base = T.wf() + tpl.cons
    last = k - 1
    M1 = Matcher(pat, T, prefix='m1')
    no, nc = M1.span(num)
    ro, rc = M1.span(numr)
    io, ic = M1.span('intervener')
    end_expected = tpl.hi('colon') if kind == 'sec' else tpl.hi(f'n{last}')
    good1 = [M1.matched, M1.startv == 0, M1.endv == end_expected, no == tpl.lo('n0'), nc == tpl.hi('n0')]
    if k > 1:
        sep_ch, sep_alts = tpl.alt_choice[f'sep{last}']
        off = z3.Sum([z3.If(sep_ch == i, int_off(kind, w), 0) for i, w in enumerate(sep_alts)])
        good1 += [ro == tpl.lo(f'n{last}'), rc == tpl.hi(f'n{last}'), io == tpl.lo(f'sep{last}') + off, ic == tpl.hi(f'sep{last}')]
    else:
        good1 += [ro == -1, io == -1]
    queries = []
    sol = z3.Solver()
    sol.set('timeout', ob.params.get('cap', 600) * 1000)
    sol.add(*base)
    sol.add(*M1.cons)
    t0 = time.time()
    twin = str(sol.check())
    sample = T.value(sol.model()) if twin == 'sat' else None
    if twin != 'sat':
        return result('error', notes=['twin ' + twin], queries=1)
    sol.push()
    sol.add(z3.Not(z3.And(*good1)))
    r1 = str(sol.check())
    cex1 = T.value(sol.model()) if r1 == 'sat' else None
    sol.pop()
    r2 = 'n/a'
    cex2 = None
    states, trans = M1.n_states, M1.n_transitions
    if k > 1 and r1 == 'unsat':
        cut = z3.Int('cut')
        M2 = Matcher(pat, T, prefix='m2', endpos=cut)
        sep_ch, sep_alts = tpl.alt_choice[f'sep{last}']
        off = z3.Sum([z3.If(sep_ch == i, int_off(kind, w), 0) for i, w in enumerate(sep_alts)])
        n2o, n2c = M2.span(num)
        r2o, r2c = M2.span(numr)
        i2o, i2c = M2.span('intervener')
        prev = last - 1
        good2 = [M2.matched, M2.startv == 0, M2.endv >= tpl.hi(f'n{prev}'), M2.endv <= cut, n2o == tpl.lo('n0'), n2c == tpl.hi('n0')]
        if kind == 'sec':
            good2.append(M2.endv == tpl.hi(f'n{prev}'))
        if prev >= 1:
            ch2, alts2 = tpl.alt_choice[f'sep{prev}']
            off2 = z3.Sum([z3.If(ch2 == i, int_off(kind, w), 0) for i, w in enumerate(alts2)])
            good2 += [r2o == tpl.lo(f'n{prev}'), r2c == tpl.hi(f'n{prev}'), i2o == tpl.lo(f'sep{prev}') + off2]
        else:
            good2 += [r2o == -1, i2o == -1]
        s2 = z3.Solver()
        s2.set('timeout', ob.params.get('cap', 600) * 1000)
        s2.add(*base)
        s2.add(*M2.cons)
        s2.add(cut == tpl.lo(f'sep{last}') + off)
        s2.add(z3.Not(z3.And(*good2)))
        r2 = str(s2.check())
        cex2 = T.value(s2.model()) if r2 == 'sat' else None
        states += M2.n_states
        trans += M2.n_transitions
    dt = time.time() - t0
    info = dict(queries=3 if k > 1 else 2, distinct=2 if k > 1 else 1, solver_s=round(dt, 2), validated=tot + tot2, states=states,
                transitions=trans, bound=f'{kind} lists of {k} items, {len(SEPS)} connectives, keyword spellings, optional repeated keyword, N={N}',
                samples=[{'instance': sample, 'whole_list_contract': r1, 'endpos_step_contract': r2}])
    if r1 == 'unsat' and r2 in ('unsat', 'n/a'):
        return result('holds', **info)
    if 'unknown' in (r1, r2):
        return result('inconclusive', notes=[f'{r1}/{r2}'], **info)
    w = cex1 or cex2
    return result('violated', violations=[violation(f'list-contract:{kind}', f'{"multisec_regex" if kind == "sec" else "multilot_regex"} does not read the '
                                                    f'list {w!r} item by item ({"whole list" if cex1 else "after cutting off the last item"})',
                                                    'c05_list_text', {'text': w, 'kind': kind})], **info)


# ------------------------------------------------------------------ S: real loops over the proved contract
NUMS_SEC = (1, 2, 9, 10, 36, 99)
NUMS_LOT = (1, 9, 10, 99, 100, 999)
S_SEPS = ['-', ' through ', ' THRU ', ' To ', ', ', ', and ', ' & ', ' AND ']      # representatives per connective class and casing


def denoted(nums, seps):
    """list semantics: expand each range inclusively in its stated direction, concatenate in reading order"""
    out = [nums[0]]
    desc = False
    for n, s in zip(nums[1:], seps):
        if s.lower() in THRU:
            a = out[-1]
            step = 1 if n >= a else -1
            if n < a:
                desc = True
            out += list(range(a + step, n + step, step))
        else:
            out.append(n)
    return out, desc


def ob_s_loops(ob):
    from engine.xh import explore, choose
    import pytrs.parser.unpack.unpackers as U
    kind = ob.params['kind']
    kmax = ob.params['k']
    nums_tab = ob.params.get('nums') or (NUMS_SEC if kind == 'sec' else NUMS_LOT)
    pname = 'multisec_regex' if kind == 'sec' else 'multilot_regex'
    num, numr = ('secnum', 'secnum_rightmost') if kind == 'sec' else ('lotnum', 'lotnum_rightmost')

    class CM:
        def __init__(self, items, seps, j, text):
            self.items, self.seps, self.j, self.string = items, seps, j, text

        def groupdict(self):
            d = {num: str(self.items[0]), numr: (str(self.items[self.j]) if self.j > 0 else None),
                 'intervener': (self.seps[self.j - 1][INT_OFF.get(self.seps[self.j - 1].lower(), 0):] if self.j > 0 else None)}
            if kind == 'lot':
                d.update(word_lot_rightmost=None, plural=None, acreage=None, acreage_notfirst=None)
            return d

        def __getitem__(self, g):
            return self.groupdict()[g]

        def group(self, g=0):
            return self.groupdict()[g]

        def start(self, g=0):
            if g == 'intervener':
                return 10 * self.j - 7 + INT_OFF.get(self.seps[self.j - 1], 0) if self.j > 0 else -1
            return 0

        def end(self, g=0):
            return 10 * self.j + 3

    class CP:
        """item i occupies [10i, 10i+3), connective i+1 occupies [10i+3, 10i+10)"""

        def __init__(self, items, seps):
            self.items, self.seps = items, seps

        def search(self, txt, pos=0, endpos=None):
            e = len(txt) if endpos is None else endpos
            j = -1
            for i in range(len(self.items)):
                if 10 * i + 3 <= e:
                    j = i
            return None if j < 0 else CM(self.items, self.seps, j, txt)

    def run(k, ns, ss):
        k = choose(k, range(1, kmax + 1))
        nums = [choose(n, nums_tab) for n in ns[:k]]
        seps = [choose(s, S_SEPS) for s in ss[:k - 1]]
        for a, b in zip(seps, seps[1:]):
            if a.lower() in THRU and b.lower() in THRU:
                return True          # chained ranges are outside the oracle
        exp, desc = denoted(nums, seps)
        saved = getattr(U, pname)
        saved_acres = U.lot_acres_unpacker_regex
        setattr(U, pname, CP(nums, seps))

        class NoAcres:
            def search(self, *a, **kw):
                return None
        U.lot_acres_unpacker_regex = NoAcres()
        try:
            if kind == 'sec':
                u = U.SecUnpacker('x' * (10 * k - 7))
                got, flags = u.sec_list, u.flags
                want = [str(x).rjust(2, '0') for x in exp]
                fl = 'nonsequential_sections'
            else:
                u = U.LotUnpacker('x' * (10 * k - 7))
                got, flags = u.lot_list, u.flags
                want = [f'L{x}' for x in exp]
                fl = 'nonsequential_lots'
        finally:
            setattr(U, pname, saved)
            U.lot_acres_unpacker_regex = saved_acres
        return got == want and ((fl in flags) or not desc) and len(u.flags) == len(u.flag_lines)

    if kmax == 2:
        def target(k: int, n0: int, n1: int, s0: int):
            return run(k, [n0, n1], [s0])
    elif kmax == 3:
        def target(k: int, n0: int, n1: int, n2: int, s0: int, s1: int):
            return run(k, [n0, n1, n2], [s0, s1])
    else:
        def target(k: int, n0: int, n1: int, n2: int, n3: int, s0: int, s1: int, s2: int):
            return run(k, [n0, n1, n2, n3], [s0, s1, s2])
    st = explore(target, timeout=ob.params.get('cap', 900), max_viol=5)
    info = dict(bound=f'{kind}: 1..{kmax} items from {nums_tab}, connectives {S_SEPS}', samples=[{'items': [9, 2, 36], 'connectives': [' - ', ', and ']}],
                assumptions=[f'contract pattern = what ob m_list_{kind}_* proves about the live pattern'])
    cl = lambda x, n: x if 0 <= x < n - 1 else n - 1

    def mk(vs):
        out = []
        for v in vs:
            a = v['args']
            k = cl(a['k'], kmax) + 1
            nums = [nums_tab[cl(a[f'n{i}'], len(nums_tab))] for i in range(k)]
            seps = [S_SEPS[cl(a[f's{i}'], len(S_SEPS))] for i in range(k - 1)]
            word = ('Sections ' if kind == 'sec' else 'Lots ')
            text = word + str(nums[0]) + ''.join(s + str(n) for s, n in zip(seps, nums[1:]))
            out.append(violation(f'list-expansion:{kind}', f'{text!r} is not expanded to the sequence it denotes; {v["exc"]}', 'c05_list_text',
                                 {'text': text, 'kind': kind}))
        return out[:3]
    return from_explore(st, info, mk)


API_SEPS = SEPS + [' THROUGH ', ' Thru ', ' TO ', ' AND ']


def ob_api(ob):
    """rendered lists through the public API: find_sec, PLSSDesc tract order, Tract.lots / ilots / warnings agree with the denoted sequence"""
    from engine.xh import explore, choose
    import pytrs
    kmax = ob.params['k']
    kind = ob.params['kind']
    small = ob.params.get('small')
    nums_tab = ((2, 9, 36) if kind == 'sec' else (1, 9, 100, 999)) if small else (NUMS_SEC if kind == 'sec' else NUMS_LOT)
    words = (SEC_WORDS if kind == 'sec' else ['Lot ', 'Lots ', 'L', 'Lt. '])
    if small:
        words = words[1:4] + words[-1:]
    reps = [''] + (SEC_REPEAT[:2] if kind == 'sec' else LOT_REPEAT[:2])
    if small:
        reps = reps[:2]
    api_seps = API_SEPS if (small or kmax < 3) else S_SEPS
    if kmax >= 3 and not small:
        nums_tab = (2, 9, 36) if kind == 'sec' else (1, 9, 100)
        words = words[:4]

    def run(k, w, ns, ss, rp):
        k = choose(k, range(1, kmax + 1))
        nums = [choose(n, nums_tab) for n in ns[:k]]
        seps = [choose(s, api_seps) for s in ss[:k - 1]]
        for a, b in zip(seps, seps[1:]):
            if a.lower() in THRU and b.lower() in THRU:
                return True
        rep = choose(rp, reps)
        text = choose(w, words) + str(nums[0]) + ''.join(s + (rep if s.endswith(' ') or not rep else ' ' + rep) + str(n) for s, n in zip(seps, nums[1:]))
        return api_verdict(text, kind, nums, seps) is None

    if kmax == 2:
        def target(k: int, w: int, n0: int, n1: int, s0: int, rp: int):
            return run(k, w, [n0, n1], [s0], rp)
    else:
        def target(k: int, w: int, n0: int, n1: int, n2: int, s0: int, s1: int, rp: int):
            return run(k, w, [n0, n1, n2], [s0, s1], rp)
    st = explore(target, timeout=ob.params.get('cap', 900), max_viol=5)
    info = dict(bound=f'{kind}: 1..{kmax} items from {nums_tab} x connectives x {len(words)} keywords x repeated keyword', samples=[{'text': 'Sections 9 - 2, and Sec 36'}])
    cl = lambda x, n: x if 0 <= x < n - 1 else n - 1

    def mk(vs):
        out = []
        for v in vs:
            a = v['args']
            k = cl(a['k'], kmax) + 1
            nums = [nums_tab[cl(a[f'n{i}'], len(nums_tab))] for i in range(k)]
            seps = [api_seps[cl(a[f's{i}'], len(api_seps))] for i in range(k - 1)]
            rep = reps[cl(a['rp'], len(reps))]
            text = words[cl(a['w'], len(words))] + str(nums[0]) + ''.join(s + (rep if s.endswith(' ') or not rep else ' ' + rep) + str(n) for s, n in zip(seps, nums[1:]))
            out.append(violation(f'list-api:{kind}', f'{text!r}: {api_verdict(text, kind, nums, seps)}; {v["exc"]}', 'c05_api',
                                 {'text': text, 'kind': kind, 'nums': nums, 'seps': seps}))
        return out[:3]
    return from_explore(st, info, mk)


def api_verdict(text, kind, nums, seps):
    import pytrs
    exp, desc = denoted(nums, seps)
    if kind == 'sec':
        want = [str(x).rjust(2, '0') for x in exp]
        got = pytrs.find_sec(text)
        if got != want:
            return f'find_sec gives {got}, denoted {want}'
        d = pytrs.PLSSDesc('T154N-R97W ' + text + ': NE/4')
        secs = [t.sec for t in d.tracts]
        if secs != want or any(t.desc != 'NE/4' for t in d.tracts):
            return f'PLSSDesc tracts {[(t.trs, t.desc) for t in d.tracts]}, denoted sections {want}'
        if desc and 'nonsequential_sections' not in d.w_flags:
            return f'nonsequential warning missing: {d.w_flags}'
        return None
    t = pytrs.Tract(text, parse_qq=True)
    if t.lots != [f'L{x}' for x in exp] or t.ilots != exp:
        return f'Tract lots {t.lots} / ilots {t.ilots}, denoted {exp}'
    if desc and 'nonsequential_lots' not in t.w_flags:
        return f'nonsequential warning missing: {t.w_flags}'
    return None


def obligations(tier):
    q = tier == 'quick'
    obs = []
    for kind in ('sec', 'lot'):
        pn = 'multisec_regex' if kind == 'sec' else 'multilot_regex'
        obs.append(Ob(f'm_list_{kind}_1', 'M', ob_m_list, f'{pn}: single item', functions=[pn], weight=3, timeout=1500,
                      params={'kind': kind, 'k': 1, 'N': 16, 'cap': 600}))
        obs.append(Ob(f'm_list_{kind}_2', 'M', ob_m_list, f'{pn}: two-item lists, whole match and endpos step', functions=[pn, 'start_of_rightmost'],
                      weight=8, timeout=3000, params={'kind': kind, 'k': 2, 'N': 30 if kind == 'sec' else 26, 'cap': 1200}))
        if not q:
            obs.append(Ob(f'm_list_{kind}_3', 'M', ob_m_list, f'{pn}: three-item lists', functions=[pn, 'start_of_rightmost'], weight=10,
                          timeout=7200, params={'kind': kind, 'k': 3, 'N': 40, 'cap': 3400}))
        obs.append(Ob(f's_loops_{kind}', 'S', ob_s_loops, f'real {"SecUnpacker" if kind == "sec" else "LotUnpacker"} loop over the contract pattern',
                      functions=['SecUnpacker.unpack_sections' if kind == 'sec' else 'LotUnpacker.unpack_lots', 'get_rightmost', 'is_multi',
                                 'thru_rightmost', 'start_of_rightmost'], weight=5, timeout=3000, params={'kind': kind, 'k': 3, 'cap': 2700,
                                                                                                  'nums': ((1, 9, 10, 99) if kind == 'sec' else (1, 9, 100, 999)) if q else None}))
        obs.append(Ob(f'api_{kind}', 'S', ob_api, f'rendered {kind} lists through the public API', functions=['find_sec', 'PLSSDesc', 'Tract.lots', 'Tract.ilots'],
                      weight=6, timeout=7000, params={'kind': kind, 'k': 2 if q else 3, 'cap': 2700 if q else 6500, 'small': q}))
    return obs
