"""C19 reference rendering (no z3/CrossHair imports; shared with the replays)."""
CORPUS = (
    ('T154N-R97W Sec 14: Lots 1(38.29), 2[40.00], N/2 of Lot 3, NE/4, less and except the wellbore', True),
    ('T154N-R97W Sec 14: NE/4\nSec 15: "W/2", and Lot 5, Lot 5', True),
    ('Sec 14: NE/4', True),          # error Twp/Rge: error flags with context
    ('T154N-R97W Sec 1 - 3: N/2', False),
)
UNKNOWN = ('nonesuch', 'Lots')


def flat(x):
    out = []
    for e in x:
        if isinstance(e, (list, tuple)):
            out.extend(flat(e))
        else:
            out.append(e)
    return out


def cell(v):
    """the one string a csv cell must hold for attribute value v (before csv quoting)"""
    if isinstance(v, dict):
        return ','.join(f'{k}:{x}' for k, x in v.items())
    if isinstance(v, (list, tuple)):
        return ', '.join(str(e) for e in flat(v))
    return v


def expected_value(tract, att):
    return getattr(tract, att, f'{att}: n/a')
