"""C11 -- copy_all, forced or as fallback, keeps the whole text in exactly one tract."""
from engine.framework import Ob, result, violation, from_explore

PROPERTY = 'C11'
LEVEL = 'other'
FILES = ['pytrs/parser/plssdesc/plss_parse.py', 'pytrs/parser/plssdesc/plssdesc.py', 'pytrs/parser/config/layouts.py']
ASSUMPTIONS = [
    'hand-over: real PLSSDesc on 6 concrete texts; the channel by which copy_all is requested (init keyword, config string, '
    '.config assignment, parse(layout=) with commit on/off) and other settings are symbolic choices',
    'fallback: provenance-document harness shared with C03 (contract finder patterns); a fallback is expected whenever the document '
    'has no Twp/Rge segment or no section segment; then the layout is deduced as copy_all and the description must equal the text '
    'up to outer white space (stripped by the real preprocessor, not by the stand-in); "carries the complete text" in the '
    'never-two-tracts clause is judged up to the separators and cull words that clean-up removes',
]
EXPLANATION = ('CrossHair explores the real layout hand-over (PLSSDesc -> PLSSParser -> ChunkParser) and the copy_all / fallback '
               'branches of ChunkParser over the bounded document family; on each path: exactly one tract with the whole text when '
               'copy_all is forced or is the only option, an error flag unless Twp/Rge and section were both identified, never two '
               'tracts carrying the complete text.')

TEXTS = ('T154N-R97W Sec 14: NE/4, Sec 15: W/2', 'NE/4 of Section 14, T154N-R97W', 'Lots 1 - 3 and the NE/4', 'Sec 14: NE/4',
         'T154N-R97W\nthat part lying north of the river', 'T154N-R97W Sec 14: NE/4\nT155N-R97W Sec 1: ALL')
CHANNELS = ('init_kw', 'config', 'assign', 'parse_commit', 'parse_nocommit')


def whole(desc, text):
    """desc carries the complete text (up to separators / cull words at the edges)"""
    from props.c04_ref import CULL
    d = str(desc)
    if d == text:
        return True
    i = text.find(d)
    if i < 0 or not d:
        return False
    rest = (text[:i] + ' ' + text[i + len(d):]).replace(',', ' ').replace(';', ' ').replace(':', ' ').replace('.', ' ').replace('-', ' ')
    return all(w.lower() in CULL for w in rest.split())


def ob_handover(ob):
    from engine.xh import explore, choose
    from pytrs.parser.plssdesc import PLSSDesc
    extra = ('', 'segment', 'sec_colon_required', 'sec_within', 'parse_qq')

    def target(ti: int, ch: int, ex: int):
        text = choose(ti, TEXTS)
        chn = choose(ch, CHANNELS)
        cfg = choose(ex, extra)
        if chn == 'init_kw':
            d = PLSSDesc(text, layout='copy_all', config=cfg)
            tracts = d.tracts
        elif chn == 'config':
            d = PLSSDesc(text, config=(cfg + ',copy_all').strip(','))
            tracts = d.tracts
        elif chn == 'assign':
            d = PLSSDesc(text, config=cfg, wait_to_parse=True)
            d.config = 'copy_all'
            d.parse()
            tracts = d.tracts
        elif chn == 'parse_commit':
            d = PLSSDesc(text, config=cfg)
            d.parse(layout='copy_all')
            tracts = d.tracts
        else:
            d = PLSSDesc(text, config=cfg)
            tracts = d.parse(layout='copy_all', commit=False)
        if len(tracts) != 1:
            return False
        pp = d.preprocess()
        return str(tracts[0].desc) == pp and (chn == 'parse_nocommit' or d.current_layout == 'copy_all')

    st = explore(target, timeout=600, max_viol=10)
    info = dict(bound=f'{len(TEXTS)} texts x channels {CHANNELS} x extra settings {extra}', samples=[{'text': TEXTS[0], 'channel': 'config'}])
    cl = lambda x, n: x if 0 <= x < n - 1 else n - 1

    def mk(vs):
        out = {}
        for v in vs:
            a = v['args']
            chn = CHANNELS[cl(a['ch'], len(CHANNELS))]
            out.setdefault(chn, violation(f'copy_all-ignored:{chn}', f'copy_all requested via {chn} on {TEXTS[cl(a["ti"], len(TEXTS))]!r} does not '
                                          f'give exactly one tract with the whole preprocessed text; {v["exc"]}', 'c11_handover',
                                          {'text': TEXTS[cl(a['ti'], len(TEXTS))], 'channel': chn, 'extra': extra[cl(a['ex'], len(extra))]}))
        return list(out.values())
    return from_explore(st, info, mk)


def fallback_verdict(doc_text, has_tr, has_sec, mode, parser):
    tracts = list(parser.tracts)
    n_whole = sum(1 for t in tracts if whole(t.desc, doc_text) and len(str(t.desc)) > 0)
    if n_whole > 1:
        return 'two-whole: two tracts both carry the complete text'
    forced = mode == 'copy_all'
    forced_other = mode in ('TRS_desc', 'desc_STR', 'S_desc_TR', 'TR_desc_S')      # the user mandated another layout
    if forced or ((not has_tr or not has_sec) and not forced_other):
        if len(tracts) != 1:
            return f'count: copy_all ({"forced" if forced else "fallback"}) gave {len(tracts)} tracts'
        if forced and str(tracts[0].desc) != doc_text:
            return 'not-whole: the forced copy_all tract does not carry the entire text'
        if not forced and str(tracts[0].desc).strip() != doc_text.strip():
            # the layout is deduced as copy_all (no Twp/Rge or no section at all): no clean-up is applied (the real preprocessor
            # strips outer white space, the stand-in of this harness does not: that much is tolerated)
            return 'not-whole: the fallback tract does not carry the entire text'
        if not forced and not parser.e_flags:
            return 'no-flag: fallback without both a Twp/Rge and a section, but no error flag'
    return None


def ob_fallback(ob):
    from engine.xh import explore
    from props import plss_abs as P
    from props.c10 import mode_cfg
    mmax, fill, modes = ob.params['mmax'], ob.params['fill'], ob.params['modes']

    def oracle(doc, mode, parser, exc):
        if exc is not None:
            return True
        kinds = {s.kind for s in doc.segs}
        return fallback_verdict(doc.string, 'TR' in kinds, 'SEC' in kinds, mode, parser) is None

    st = explore(P.make_target(mmax, fill, modes, oracle), timeout=ob.params.get('cap', 900), max_viol=10)
    info = dict(bound=f'documents of 0..{mmax} segments x fillers {[P.FILLERS[f] for f in fill]} x modes {modes}',
                samples=[{'doc': ' NE/4 Sec 11: NE/4 ', 'mode': modes[0]}])

    def mk(vs):
        out = {}
        for v in vs:
            variants, fillers, mode = P.decode(v['args'], mmax, fill, modes)
            doc = P.build_doc(variants, fillers)
            kinds = {s.kind for s in doc.segs}
            try:
                why = fallback_verdict(doc.string, 'TR' in kinds, 'SEC' in kinds, mode, P.run_parser(doc, mode)) or '?'
            except Exception as e:  # noqa
                why = repr(e)
            key = 'fallback:' + why.split(':')[0]
            if why.startswith('two-whole'):
                key = 'fallback-twice'
            out.setdefault(key, violation(key, f'PLSSDesc({doc.string!r}, config={mode_cfg(mode)!r}): {why}', 'c11_fallback',
                                          {'text': doc.string, 'config': mode_cfg(mode), 'has_tr': 'TR' in kinds, 'has_sec': 'SEC' in kinds}))
        return list(out.values())
    return from_explore(st, info, mk)


def obligations(tier):
    q = tier == 'quick'
    from props import plss_abs as P
    G = ['PLSSParser.__init__', 'PLSSParser.parse', 'ChunkParser.parse_chunk', 'ChunkParser.parse_safe', 'ChunkParser._parse_copyall',
         'ChunkParser._stage_new_tract', 'deduce_layout', 'PLSSParser.construct_tracts', 'PLSSParser.check_error_tracts']
    obs = [Ob('handover', 'S', ob_handover, 'copy_all requested by keyword / config / assignment / parse argument',
              functions=['PLSSDesc.__init__', 'PLSSDesc.config (setter)', 'PLSSDesc.parse', 'PLSSParser.__init__', 'PLSSParser.parse'],
              weight=3, timeout=900)]
    for mname in P.MODES:
        obs.append(Ob(f'fallback_{mname}', 'S', ob_fallback, f'copy_all / fallback invariants, mode {mname}', functions=G, weight=6,
                      timeout=7000, params={'mmax': 2 if q else 3, 'fill': P.FILL_Q if q else (0, 2, 4), 'modes': [mname],
                                            'cap': 2100 if q else 6500}))
    return obs
