"""C01 -- descriptions in the documented layouts parse back to exactly their tracts."""
from engine.framework import Ob, result, violation, from_explore

PROPERTY = 'C01'
LEVEL = 'model_checking'
FILES = ['pytrs/parser/plssdesc/plss_parse.py', 'pytrs/parser/plssdesc/plss_preprocess.py', 'pytrs/parser/plssdesc/plssdesc.py',
         'pytrs/parser/rgxlib/twprge.py', 'pytrs/parser/rgxlib/sec.py', 'pytrs/parser/rgxlib/misc.py', 'pytrs/parser/unpack/unpackers.py',
         'pytrs/parser/containers/containers.py', 'pytrs/parser/trs/trs.py']
ASSUMPTIONS = [
    'assume/guarantee decomposition: (S) the real plss_parse glue on well-formed provenance documents of the four layouts with contract '
    'finder patterns yields exactly the template\'s tracts; (M) the live multisec_regex / no_num_sec_regex / twprge_regex return on '
    'canonical text exactly the labelled segments with the groups the contract patterns hand out; (C08) every documented Twp/Rge '
    'spelling is preprocessed to the canonical form; (C05) lists expand to the denoted sections. The composition of these lemmas is a '
    'paper argument; it is cross-checked by running rendered descriptions (real spellings, real regexes) through the public API',
    'description blocks come from a vocabulary without section words or Twp/Rge forms; in the M obligations a block is made of '
    'letters (no s), fraction signs, slashes, commas and spaces; a block that starts with a number is the known defect below',
    '1..2 Twp/Rge groups x 1..2 section groups per description',
]
EXPLANATION = ('CrossHair explores the real parsing glue over well-formed documents of the four layouts (contract finder patterns) and '
               'the real PLSSDesc on rendered descriptions incl. the pretty_desc round trip; z3 (engine M) discharges the finder '
               'contract on the live patterns by induction over finditer (no match can start inside a block; at a segment start the match '
               'is the segment).')

BLOCK_CH = 'abdfghijklmnopqrtuvwxyzNEW½¼/, '


def ob_wf_glue(ob):
    from engine.xh import explore, choose
    from props import wf_docs as W
    from props import plss_abs as P
    layout = ob.params['layout']

    def target(ntr: bool, nsec: bool, b0: int, b1: int, multi: bool, colon: bool, sep: int):
        doc, exp = W.build(layout, 2 if ntr else 1, 2 if nsec else 1, (choose(b0, range(len(W.BLOCKS))), choose(b1, range(len(W.BLOCKS)))), bool(multi), bool(colon), choose(sep, range(3)))
        p = P.run_parser(doc, 'default')
        return W.observed(p) == exp and p.e_flags == [] and p.layout == layout

    st = explore(target, timeout=ob.params.get('cap', 2000), max_viol=4)
    info = dict(bound=f'{layout}: 1..2 Twp/Rge groups x 1..2 section groups x 5x5 blocks x single/through-range x colon on/off x 3 separators',
                samples=[{'doc': 'T150N-R90W Sec 10: NE/4, Sec 11: Lots 1 - 2', 'layout': layout}])
    cl = lambda x, n: x if 0 <= x < n - 1 else n - 1

    def mk(vs):
        out = []
        for v in vs[:3]:
            a = v['args']
            doc, exp = W.build(layout, 2 if a['ntr'] else 1, 2 if a['nsec'] else 1, (cl(a['b0'], len(W.BLOCKS)), cl(a['b1'], len(W.BLOCKS))), bool(a['multi']), bool(a['colon']), cl(a['sep'], 3))
            out.append(violation(f'layout-glue:{layout}', f'{doc.string!r} ({layout}) does not parse to {exp}; {v["exc"]}', 'c01_text',
                                 {'text': doc.string, 'expected': exp, 'layout': layout}))
        return out
    return from_explore(st, info, mk)


def ob_m_multisec(ob):
    """finditer by induction on the live multisec_regex: block . section group . separator . block"""
    import time
    import z3
    from pytrs.parser.rgxlib import multisec_regex as pat
    from engine.matcher import Text, Matcher, validate
    from engine.templates import Template, Alt, Digits, Fill, Opt
    N = ob.params['N']
    digit_block = ob.params.get('digit_block', False)
    ag, tot, bad = validate(pat, ['NE/4 of Sec 14, T154N', 'Sec 14: 10 acres', 'Secs 1 - 3: NE/4, Sec 5: W/2', 'Lot 2, N2 W2'], 30)
    if bad:
        return result('error', notes=[f'translator validation {bad[:2]}'], validated=tot)
    T = Text(N)
    block2 = Fill('block', BLOCK_CH + ('0123456789.' if digit_block else '0123456789'), 1 if digit_block else 0, ob.params.get('blen', 6),
                  first_not=(' ' if digit_block else ' ,/0123456789'))
    tpl = Template([Fill('pre', BLOCK_CH, 0, ob.params.get('blen', 6), last_not=list('abdfghijklmnopqrtuvwxyzNEW')),
                    Alt('word', ['Sec ', 'Section ', 'Secs ', 'Sections ', 'Sec. ', '§ ']), Digits('n0', 1, 2),
                    Opt('more', [Alt('sep', [' - ', ', ', ' and ', '-', ' through ', ' & ']), Digits('n1', 1, 2)]),
                    Alt('colon', ['', ':', ' :']), Alt('gap', [' ', '\n']), block2], T)
    M = Matcher(pat, T, pos=z3.Int('pos'))
    pos = M.pos
    base = T.wf() + tpl.cons + M.cons
    if digit_block:
        base.append(z3.Or(*[T.at(tpl.lo('block')) == ord(d) for d in '0123456789']))
        base.append(tpl.hi('colon') > tpl.lo('colon'))
    else:
        # a block does not begin with a list connective (to / thru / through / and): that would continue the section list
        b0, b1 = T.at(tpl.lo('block')), T.at(tpl.lo('block') + 1)
        for w in ('to', 'th', 'an'):
            base.append(z3.Not(z3.And(z3.Or(b0 == ord(w[0]), b0 == ord(w[0].upper())), z3.Or(b1 == ord(w[1]), b1 == ord(w[1].upper())))))
    sol = z3.Solver()
    sol.set('timeout', ob.params.get('cap', 900) * 1000)
    sol.add(*base)
    t0 = time.time()
    sol.push()
    sol.add(pos == 0)
    twin = str(sol.check())
    sample = T.value(sol.model()) if twin == 'sat' else None
    sol.pop()
    if twin != 'sat':
        return result('error', notes=['twin ' + twin], queries=1)
    # (a) with the search starting anywhere in the leading block, the first match is exactly the section group
    so, sc = M.span('secnum')
    ro, rc = M.span('secnum_rightmost')
    co, cc = M.span('colon')
    has_more = tpl.present['more']
    has_colon = tpl.hi('colon') > tpl.lo('colon')
    good = z3.And(M.matched, M.startv == tpl.lo('word'), M.endv == tpl.hi('colon'), so == tpl.lo('n0'), sc == tpl.hi('n0'),
                  z3.If(has_more, z3.And(ro == tpl.lo('n1'), rc == tpl.hi('n1')), ro == -1),
                  z3.If(has_colon, cc == tpl.hi('colon'), co == -1))
    sol.push()
    sol.add(pos >= 0, pos <= tpl.lo('word'), z3.Not(good))
    ra = str(sol.check())
    cex = T.value(sol.model()) if ra == 'sat' else None
    sol.pop()
    # (b) resumed after the section group, no further match starts inside the trailing block
    rb = 'n/a'
    if ra == 'unsat':
        sol.push()
        sol.add(pos == tpl.hi('colon'), M.matched)
        rb = str(sol.check())
        cex = T.value(sol.model()) if rb == 'sat' else None
        sol.pop()
    dt = time.time() - t0
    info = dict(queries=3, distinct=2, solver_s=round(dt, 2), validated=tot, states=M.n_states, transitions=M.n_transitions,
                bound=f'multisec_regex: block <= {ob.params.get("blen", 6)} chars . section group (6 words, 1-2 items, 6 connectives, 3 colon spellings) . block'
                      + (' starting with a digit after a colon' if digit_block else '') + f', N={N}', samples=[{'instance': sample, 'segment_contract': ra, 'no_match_in_block': rb}])
    if ra == 'unsat' and rb == 'unsat':
        return result('holds', **info)
    if 'unknown' in (ra, rb):
        return result('inconclusive', notes=[f'{ra}/{rb}'], **info)
    key = 'multisec-absorbs-digit-leading-block' if digit_block else 'multisec-contract'
    return result('violated', violations=[violation(key, f'multisec_regex on {cex!r}: the section group is not matched exactly as written (a following number is read as '
                                                         f'another section)' if digit_block else f'multisec_regex on {cex!r}: finder contract violated', 'c01_sections',
                                                    {'text': cex})], **info)


def ob_m_nonum(ob):
    import time
    import z3
    from pytrs.parser.rgxlib import no_num_sec_regex as pat
    from engine.matcher import Text, Matcher
    from engine.templates import Template, Alt, Digits, Fill
    T = Text(24)
    tpl = Template([Fill('pre', BLOCK_CH + '0123456789', 0, 8), Alt('word', ['Sec', 'Section', 'Secs', 'Sections', 'Sec.', '§'], cases=True), Fill('post', BLOCK_CH + '0123456789:', 0, 8)], T)
    M = Matcher(pat, T)
    sol = z3.Solver()
    sol.set('timeout', 300000)
    sol.add(*(T.wf() + tpl.cons + M.cons))
    t0 = time.time()
    twin = str(sol.check())
    sol.add(z3.Not(z3.And(M.matched, M.startv == tpl.lo('word'))))
    r = str(sol.check())
    info = dict(queries=2, distinct=1, solver_s=round(time.time() - t0, 2), states=M.n_states, transitions=M.n_transitions,
                bound='no_num_sec_regex: first match starts at the first section word after a block of <= 8 characters', samples=[{'answer': r}])
    if twin != 'sat':
        return result('error', notes=['twin ' + twin], **info)
    if r == 'unsat':
        return result('holds', **info)
    if r != 'sat':
        return result('inconclusive', notes=[r], **info)
    return result('violated', violations=[violation('no_num_sec-contract', f'no_num_sec_regex on {T.value(sol.model())!r}', 'c01_sections', {'text': T.value(sol.model())})], **info)


# ------------------------------------------------------------------ rendered descriptions through the real PLSSDesc
TR_SP = ('T{n}N-R{m}W', 'Township {n} North, Range {m} West', 'T{n}S R{m}E', 'Twp. {n} N., Rge. {m} W.', '{n}n-{m}w')
SEC_W = ('Sec ', 'Section ', 'Sec. ', '§')
BLOCKS = ('NE/4', 'Lots 1 - 2, S/2NW/4', 'W/2, less and except the wellbore', 'That part of the North Half lying north of the river', 'ALL',
          'NE/4 and all rights therein', 'SW/4 as aforesaid', 'E/2 lying west of the drain')


def render(layout, n_tr, n_sec, tr_ix, sw_ix, b_ix, multi, sep_ix, aba=False):
    """(text, expected [(trs, desc)]) with real spellings"""
    seps = (', ', '\n', '; ')
    sep = seps[sep_ix]
    parts = []
    expected = []
    if aba:
        n_tr = 3                      # the first Twp/Rge comes back after another one (A, B, A)
    for g in range(n_tr):
        n, m = (154 + g, 97 - g) if not (aba and g == 2) else (154, 97)
        sp = TR_SP[tr_ix]
        tr = sp.format(n=n, m=m)
        ns, ew = ('s', 'e') if ('S' in sp.replace('Sec', '') and 'E' in sp) else ('n', 'w')
        twprge = f'{n}{ns}{m}{ew}'
        secs = []
        for k in range(n_sec):
            a = 10 * (g + 1) + k if g < 2 else 30 + k
            if multi and k == 0:
                word = {'Sec ': 'Secs ', 'Section ': 'Sections ', 'Sec. ': 'Secs. ', '§': '§'}[SEC_W[sw_ix]]
                secs.append((word + f'{a} - {a + 2}', [a, a + 1, a + 2], BLOCKS[(b_ix + k) % len(BLOCKS)]))
            else:
                secs.append((SEC_W[sw_ix] + str(a), [a], BLOCKS[(b_ix + k) % len(BLOCKS)]))
        last = g == n_tr - 1
        if layout == 'TRS_desc':
            parts.append(tr + '\n' + sep.join(f'{s}: {b}' for s, _, b in secs) + ('' if last else sep))
        elif layout == 'TR_desc_S':
            parts.append(tr + '\n' + sep.join(f'{b} of {s}' for s, _, b in secs) + ('' if last else sep))
        elif layout == 'desc_STR':
            parts.append(''.join(f'{b} of {s}, ' for s, _, b in secs) + tr + ('' if last else sep))
        else:
            parts.append(''.join(f'{s}: {b}, ' for s, _, b in secs) + tr + ('' if last else sep))
        for s, nums, b in secs:
            expected += [(twprge + str(x).rjust(2, '0'), b) for x in nums]
    return ''.join(parts), expected


def render_verdict(text, expected, layout):
    import pytrs
    d = pytrs.PLSSDesc(text)
    got = [(t.trs, t.desc) for t in d.tracts]
    if got != [tuple(e) for e in expected]:
        return f'tracts {got}, expected {expected}'
    if d.current_layout != layout:
        return f'layout deduced as {d.current_layout}, written as {layout}'
    if d.e_flags:
        return f'error flags {d.e_flags}'
    pretty = d.pretty_desc()
    d2 = pytrs.PLSSDesc(pretty)
    if [(t.trs, t.desc) for t in d2.tracts] != got or d2.e_flags:
        return f'pretty_desc {pretty!r} parses back to {[(t.trs, t.desc) for t in d2.tracts]} {d2.e_flags}'
    return None


def ob_api(ob):
    from engine.xh import explore, choose
    layout = ob.params['layout']
    tr_set = ob.params.get('tr_set', range(len(TR_SP)))
    b_set = ob.params.get('b_set', tuple(range(len(BLOCKS))))

    def target(ntr: bool, nsec: bool, tr: int, sw: int, b: int, multi: bool, sep: int, aba: bool):
        if aba and not (ntr and not nsec and not multi):
            return True               # the A, B, A shape is explored with one section group per Twp/Rge
        args = (2 if ntr else 1, 2 if nsec else 1, choose(tr, tr_set), choose(sw, range(len(SEC_W))), choose(b, b_set), bool(multi), choose(sep, range(3)), bool(aba))
        text, exp = render(layout, *args)
        return render_verdict(text, exp, layout) is None

    st = explore(target, timeout=ob.params.get('cap', 2000), max_viol=4)
    info = dict(bound=f'{layout}: 1..2 x 1..2 groups x {len(list(tr_set))} Twp/Rge spellings x {len(SEC_W)} section words x {len(BLOCKS)} blocks x single/range x 3 separators, incl. pretty_desc round trip',
                samples=[{'text': render(layout, 1, 2, 1, 1, 0, True, 1)[0]}])
    cl = lambda x, n: x if 0 <= x < n - 1 else n - 1
    trs = list(tr_set)

    def mk(vs):
        out = []
        for v in vs[:3]:
            a = v['args']
            text, exp = render(layout, 2 if a['ntr'] else 1, 2 if a['nsec'] else 1, trs[cl(a['tr'], len(trs))], cl(a['sw'], len(SEC_W)), b_set[cl(a['b'], len(b_set))], bool(a['multi']), cl(a['sep'], 3), bool(a.get('aba')))
            out.append(violation(f'layout-api:{layout}', f'{text!r}: {render_verdict(text, exp, layout)}; {v["exc"]}', 'c01_text', {'text': text, 'expected': exp, 'layout': layout}))
        return out
    return from_explore(st, info, mk)


def obligations(tier):
    q = tier == 'quick'
    from props.wf_docs import LAYOUTS
    G = ['deduce_layout', 'TwpRgeFinder', 'SecFinder', 'ChunkParser._parse_meaningful', 'ChunkParser.populate_markers', 'cleanup_desc',
         'PLSSParser.construct_tracts', 'SecUnpacker', 'unpack_twprge', 'twprge_natural_to_short']
    obs = [Ob(f'wf_glue_{lay}', 'S', ob_wf_glue, f'well-formed {lay} documents parse to the expected tracts (contract finders)', functions=G, weight=7,
              timeout=4000, params={'layout': lay, 'cap': 3600}) for lay in LAYOUTS]
    obs.append(Ob('m_multisec_contract', 'M', ob_m_multisec, 'multisec_regex: finder contract on canonical text (finditer by induction)', functions=['multisec_regex'],
                  weight=10, timeout=7000, params={'N': 32 if q else 44, 'blen': 5 if q else 10, 'cap': 1500 if q else 3400}))
    obs.append(Ob('m_multisec_digit_block', 'M', ob_m_multisec, 'multisec_regex on a block that starts with a number after the colon (known defect)', functions=['multisec_regex'],
                  weight=8, timeout=4000, params={'N': 28, 'blen': 4, 'digit_block': True, 'cap': 900}))
    obs.append(Ob('m_no_num_sec', 'M', ob_m_nonum, 'no_num_sec_regex: first match is the first section word', functions=['no_num_sec_regex'], weight=3, timeout=1500))
    for lay in LAYOUTS:
        obs.append(Ob(f'api_{lay}', 'S', ob_api, f'rendered {lay} descriptions through PLSSDesc incl. pretty_desc round trip',
                      functions=['PLSSDesc', 'plss_preprocess', 'PLSSParser', 'TractList.pretty_desc', 'TRS.pretty_twprge'], weight=8, timeout=7000,
                      params={'layout': lay, 'cap': 6500, 'tr_set': (0, 1, 3) if q else tuple(range(len(TR_SP))), 'b_set': (0, 1, 3, 5, 7) if q else tuple(range(len(BLOCKS)))}))
    return obs
