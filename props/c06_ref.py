"""C06 shared pieces (no z3/CrossHair imports): element vocabulary and the compositional oracle."""
ELEMENTS = (
    ('Lot 1', 'lot'), ('Lots 1 - 3', 'lots'), ('Lot 4(38.29)', 'lot_ac'), ('Lot 5 [40.00]', 'lot_ac'), ('N½ of Lot 6', 'div'),
    ('S½NE¼ of Lots 7 and 8', 'div'), ('N½NE¼', 'aq'), ('SW¼', 'aq'), ('E½W½NW¼', 'aq'), ('ALL', 'all'), ('Lot 1', 'lot'), ('SW¼', 'aq'),
    ('Lots 9(12.5) through 11', 'lot_ac'), ('W½ Lot 12', 'div'),
)
SEPS = (', ', '; ', '\n', ',\n')
CONFIGS = ('', 'suppress_lot_divs', 'qq_depth.1', 'qq_depth_min.3,break_halves', 'suppress_lot_divs,qq_depth_max.2')


def parse(text, cfg):
    import pytrs
    return pytrs.Tract(text, parse_qq=True, config=cfg)


def verdict(idx, seps, cfg):
    """None if the description made of ELEMENTS[idx] joined by seps parses compositionally, else (class, reason)"""
    parts = [ELEMENTS[i][0] for i in idx]
    kinds = [ELEMENTS[i][1] for i in idx]
    text = parts[0] + ''.join(s + p for s, p in zip(seps, parts[1:]))
    whole = parse(text, cfg)
    singles = [parse(p, cfg) for p in parts]
    exp_lots = [x for t in singles for x in t.lots]
    exp_qqs = [x for t in singles for x in t.qqs]
    exp_acres = {}
    for t in singles:
        exp_acres.update(t.lot_acres)
    exp_whole = [x for t in singles for x in t.aliquots_whole]
    cls = 'other'
    if 'all' in kinds and len(kinds) > 1:
        cls = 'all-with-neighbour'
    elif any('\n' in s for s in seps):
        cls = 'line-break'
    if whole.lots != exp_lots:
        return cls, f'lots {whole.lots}, element-wise {exp_lots}'
    if whole.qqs != exp_qqs:
        return cls, f'aliquots {whole.qqs}, element-wise {exp_qqs}'
    if whole.lots_qqs != whole.lots + whole.qqs:
        return 'other', 'lots_qqs is not lots followed by qqs'
    if whole.ilots != [int(x.split('L')[-1]) for x in whole.lots]:
        return 'other', f'ilots {whole.ilots} does not mirror lots {whole.lots}'
    if whole.lot_acres != exp_acres:
        return cls, f'lot_acres {whole.lot_acres}, element-wise {exp_acres}'
    if sorted(whole.aliquots_whole) != sorted(exp_whole):
        return cls, f'aliquots_whole {whole.aliquots_whole}, element-wise {exp_whole}'
    dup_l = len(set(whole.lots)) != len(whole.lots)
    dup_q = len(set(whole.qqs)) != len(whole.qqs)
    has_l = any(f.startswith('dup_lot<') for f in whole.w_flags)
    has_q = any(f.startswith('dup_qq<') for f in whole.w_flags)
    if dup_l != has_l or dup_q != has_q:
        return 'dup-flag', f'duplicate warning mismatch: lots dup={dup_l} flag={has_l}; qqs dup={dup_q} flag={has_q}; {whole.w_flags}'
    return None
