"""C08 -- Twp/Rge spellings are equivalent; missing directions come from defaults only."""
from engine.framework import Ob, result, violation, from_explore

PROPERTY = 'C08'
LEVEL = 'model_checking'
FILES = ['pytrs/parser/rgxlib/twprge.py', 'pytrs/parser/plssdesc/plss_preprocess.py', 'pytrs/parser/unpack/unpackers.py',
         'pytrs/parser/config/master_config.py']
ASSUMPTIONS = [
    'documented spellings = the nine forms of DESIGN.md Appendix A (T154N-R97W, T154N R97W, Township 154 North, Range 97 West, '
    'Twp. 154 N., Rge. 97 W., Twp 154 N, Rge 97 W, 154N-97W, T-154-N, R-97-W, T. 154 N., R. 97 W., 154 North 97 West) in three casings, '
    'numbers 1-3 digits without leading zero, a range written as the single digit 2 only after an explicit R/Rge/Range',
    'context around a spelling: <= K characters from an alphabet without the letters n s e w (so that the context cannot itself contain '
    'a direction), the character next to the spelling not a word character',
    'assume/guarantee: M proves which span and groups the live patterns return; S runs the real unpack_twprge / sub_scrubber / default '
    'resolution on match objects with exactly those groups',
]
EXPLANATION = ('z3 (exact bounded model of CPython matching) decides on the live twprge_regex and pp_twprge_* patterns that every '
               'documented spelling in any short context is matched as a whole with number / direction groups on the written fields, '
               'that the canonical form is re-matched with the same fields by every later scrubber, and that spellings lacking a '
               'direction are matched only by the intended pp pattern with that group absent; CrossHair explores unpack_twprge and the '
               'default-direction precedence on the real code.')

CTX = 'abcdfghijklmopqruvxyz0123456789 ,.;:-/()\n'      # no n s e w (directions) and no t (an optional leading 'T' of the pattern)
DN = ['N', 'S']
DE = ['W', 'E']
DNL = ['North', 'South']
DEL = ['West', 'East']
# form name -> list of template pieces: ('lit', [alternatives]) | ('n',) | ('m',) | ('D', alts) | ('E', alts)
FORMS = {
    'T154N-R97W': [('lit', ['T']), ('n',), ('D', DN), ('lit', ['-R', '-r']), ('m',), ('E', DE)],
    'T154N R97W': [('lit', ['T']), ('n',), ('D', DN), ('lit', [' R', '  R']), ('m',), ('E', DE)],
    'Township 154 North, Range 97 West': [('lit', ['Township ']), ('n',), ('lit', [' ']), ('D', DNL), ('lit', [', Range ', ' Range ']), ('m',), ('lit', [' ']), ('E', DEL)],
    'Twp. 154 N., Rge. 97 W.': [('lit', ['Twp. ']), ('n',), ('lit', [' ']), ('D', DN), ('lit', ['., Rge. ']), ('m',), ('lit', [' ']), ('E', DE)],
    'Twp 154 N, Rge 97 W': [('lit', ['Twp ']), ('n',), ('lit', [' ']), ('D', DN), ('lit', [', Rge ']), ('m',), ('lit', [' ']), ('E', DE)],
    '154N-97W': [('n',), ('D', DN), ('lit', ['-']), ('m',), ('E', DE)],
    'T-154-N, R-97-W': [('lit', ['T-']), ('n',), ('lit', ['-']), ('D', DN), ('lit', [', R-']), ('m',), ('lit', ['-']), ('E', DE)],
    'T. 154 N., R. 97 W.': [('lit', ['T. ']), ('n',), ('lit', [' ']), ('D', DN), ('lit', ['., R. ']), ('m',), ('lit', [' ']), ('E', DE)],
    '154 North 97 West': [('n',), ('lit', [' ']), ('D', DNL), ('lit', [' ']), ('m',), ('lit', [' ']), ('E', DEL)],
}
HAS_R = {k: any(p[0] == 'lit' and any('R' in a.upper().replace('NORTH', '').replace('TOWNSHIP', '') for a in p[1]) for p in v[2:]) for k, v in FORMS.items()}


def _segs(form, ctx_k, drop=(), cases=True, ocr=False):
    """template segments for a form inside contexts; drop: subset of {'D','E'} to leave a direction out"""
    from engine.matcher import WORD
    from engine.templates import Alt, Digits, Fill
    segs = [Fill('pre', CTX, 0, ctx_k, last_not=WORD)]
    for i, p in enumerate(FORMS[form]):
        if p[0] == 'lit':
            segs.append(Alt(f'l{i}', p[1], cases=cases))
        elif p[0] == 'n':
            segs.append(Fill('n', '0123456789SOIl', 1, 3) if ocr else Digits('n', 1, 3, no_leading_zero=True))
        elif p[0] == 'm':
            segs.append(Fill('m', '0123456789SOIl', 2, 3) if ocr else Digits('m', 1, 3, no_leading_zero=True, not_value=None if HAS_R[form] else '2'))
        elif p[0] in ('D', 'E'):
            if p[0] in drop:
                continue
            segs.append(Alt(p[0], p[1], cases=cases))
    segs.append(Fill('post', CTX, 0, ctx_k, first_not=WORD))
    return segs


def _first_last(form, drop):
    names = []
    for i, p in enumerate(FORMS[form]):
        if p[0] == 'lit':
            names.append(f'l{i}')
        elif p[0] in ('n', 'm'):
            names.append(p[0])
        elif p[0] not in drop:
            names.append(p[0])
    return names[0], names[-1]


def ob_m_spelling(ob):
    """pattern P on ctx . spelling . ctx: the first match is exactly the spelling; groups sit on the written fields"""
    import time
    import z3
    import pytrs.parser.rgxlib as R
    from engine.matcher import Text, Matcher, validate
    from engine.templates import Template
    form, pname, K, N = ob.params['form'], ob.params['pattern'], ob.params['K'], ob.params['N']
    drop = tuple(ob.params.get('drop', ()))
    expect_match = ob.params.get('expect_match', True)
    pat = getattr(R, pname)
    ag, tot, bad = validate(pat, ['T154N-R97W Sec 14', 'x; Township 154 North, Range 97 West.', 'T2N R2W', '154n-97w', 'T154-R97 of',
                                  'Twp. 154 N., Rge. 97 W.', 'lot 2, n2 w2'], 40)
    if bad:
        return result('error', notes=[f'translator validation {bad[:2]}'], validated=tot)
    T = Text(N)
    tpl = Template(_segs(form, K, drop, cases=not ob.params.get('ocr', False), ocr=ob.params.get('ocr', False)), T)
    M = Matcher(pat, T)
    first, last = _first_last(form, drop)
    sol = z3.Solver()
    sol.set('timeout', ob.params.get('cap', 600) * 1000)
    sol.add(*(T.wf() + tpl.cons + M.cons))
    t0 = time.time()
    twin = str(sol.check())
    sample = T.value(sol.model()) if twin == 'sat' else None
    if twin != 'sat':
        return result('error', notes=['twin ' + twin], queries=1)
    if expect_match:
        to, tc = M.span('twpnum')
        from engine.matcher import inset
        DEAD = '.-–—,;: \t\n\r'
        tail_ok = z3.And(M.endv >= tpl.hi(last), *[z3.Implies(z3.And(tpl.hi(last) <= i, i < M.endv), inset(T.c[i], DEAD)) for i in range(N)])
        # a pattern may swallow trailing dead space when the last written field is optional or when it is one of the
        # clean-up scrubbers; nothing else may be taken
        loose_end = ('E' in drop) or ob.params.get('canonical', False)
        good = [M.matched, M.startv == tpl.lo(first), tail_ok if loose_end else (M.endv == tpl.hi(last)), to == tpl.lo('n'), tc == tpl.hi('n')]
        if 'rgenum_edgecase_rge2' in pat.groupindex:
            ro, rc = M.span('rgenum')
            eo, ec = M.span('rgenum_edgecase_rge2')
            good.append(z3.Or(z3.And(ro == tpl.lo('m'), rc == tpl.hi('m'), eo == -1), z3.And(eo == tpl.lo('m'), ec == tpl.hi('m'), ro == -1)))
        else:
            ro, rc = M.span('rgenum')
            good += [ro == tpl.lo('m'), rc == tpl.hi('m')]
        no_, nc = M.span('ns')
        wo, wc = M.span('ew')
        good += ([no_ == tpl.lo('D'), nc == tpl.hi('D')] if 'D' not in drop else [no_ == -1])
        good += ([wo == tpl.lo('E'), wc == tpl.hi('E')] if 'E' not in drop else [wo == -1])
        if ob.params.get('canonical', False) and pname == 'pp_twprge_pm':
            sol.add(M.matched)          # without a P.M. designation this scrubber need not match at all
        sol.add(z3.Not(z3.And(*good)))
    else:
        # the pattern must not claim any part of the spelling (it is the job of a later pp pattern)
        sol.add(M.reach_start_in(tpl.lo(first), tpl.hi(last)))
    r = str(sol.check())
    dt = time.time() - t0
    info = dict(queries=2, distinct=1, solver_s=round(dt, 2), validated=tot, states=M.n_states, transitions=M.n_transitions,
                bound=f'{pname} on form {form!r}' + (f' without {"/".join(drop)}' if drop else '') + f', 3 casings, symbolic 1-3 digit numbers, context <= {K} chars each side, N={N}',
                samples=[{'instance': sample, 'answer': r}])
    if r == 'unsat':
        return result('holds', **info)
    if r != 'sat':
        return result('inconclusive', notes=[r], **info)
    w = T.value(sol.model())
    d = tpl.describe(sol.model())
    spelled = w[d[first][0]:d[last][1]]
    key = f'twprge-spelling:{pname}:{form}' + (':missing-' + '-'.join(drop) if drop else '')
    if ob.params.get('ocr', False):
        tr = {'S': '5', 's': '5', 'O': '0', 'I': '1', 'l': '1', 'L': '1'}
        conv = lambda x: str(int(''.join(tr.get(c, c) for c in x)))
        return result('violated', violations=[violation(key + ':ocr', f'{pname} on {w!r}: the OCR-damaged spelling {spelled!r} is not matched with groups on its fields', 'c08_api',
                                                        {'text': w + ' Sec 14: NE/4', 'default_ns': None, 'default_ew': None, 'ocr': True,
                                                         'expect': f'T{conv(w[d["n"][0]:d["n"][1]])}{w[d["D"][0]:d["D"][1]][0].upper()}-R{conv(w[d["m"][0]:d["m"][1]])}{w[d["E"][0]:d["E"][1]][0].upper()}'})], **info)
    return result('violated', violations=[violation(key, f'{pname} on {w!r}: the spelling {spelled!r} is not matched as a whole with groups on its '
                                                         f'fields' if expect_match else f'{pname} matches inside {spelled!r} in {w!r}', 'c08_spelling',
                                                    {'text': w, 'spelled': spelled, 'n': w[d['n'][0]:d['n'][1]], 'm': w[d['m'][0]:d['m'][1]],
                                                     'D': None if 'D' in drop else w[d['D'][0]:d['D'][1]], 'E': None if 'E' in drop else w[d['E'][0]:d['E'][1]]})], **info)


# ------------------------------------------------------------------ S: unpack_twprge values
def ob_s_unpack(ob):
    from engine.xh import explore, choose
    from pytrs.parser.unpack import unpack_twprge
    from pytrs.parser.config import MasterConfig
    nums = ('1', '7', '07', '007', '97', '097', '154', '2')
    ocr = {'I': '1', 'l': '1', 'L': '1', 'O': '0', 'S': '5', 's': '5'}
    ocr_nums = ('IS4', 'l5O', 'S', '1O', 'I', 'O7')
    ns_sp = (None, 'N', 'n', 'North', 'S', 'SOUTH')
    ew_sp = (None, 'W', 'w', 'West', 'E', 'EAST')
    defs = (None, 'n', 's')
    defe = (None, 'e', 'w')

    class CM:
        def __init__(self, g):
            self.g = g

        def groupdict(self):
            return dict(self.g)

    which = ob.params['which']

    def target(i: int, d: int, df: int, mc: bool, scrub: bool, edge: bool):
        tab = ocr_nums if scrub else nums
        num = choose(i, tab)
        if which == 'twp':
            g = {'twpnum': num, 'ns': choose(d, ns_sp), 'rgenum': '097', 'rgenum_edgecase_rge2': None, 'ew': 'W'}
            dns, dew = choose(df, defs), None
        else:
            g = {'twpnum': '154', 'ns': 'N', 'rgenum': num, 'rgenum_edgecase_rge2': None, 'ew': choose(d, ew_sp)}
            dns, dew = None, choose(df, defe)
            if edge and not scrub:
                g['rgenum'], g['rgenum_edgecase_rge2'] = None, '2'
                num = '2'
        save = (MasterConfig.default_ns, MasterConfig.default_ew)
        MasterConfig.default_ns, MasterConfig.default_ew = ('s' if mc else 'n'), ('e' if mc else 'w')
        try:
            out = unpack_twprge(CM(g), default_ns=dns, default_ew=dew, ocr_scrub=bool(scrub))
            m_ns, m_ew = MasterConfig.default_ns, MasterConfig.default_ew
        finally:
            MasterConfig.default_ns, MasterConfig.default_ew = save

        def val(s):
            if scrub:
                s = ''.join(ocr.get(c, c) for c in s)
            return str(int(s))
        exp_ns = (g['ns'][0] if g['ns'] else (dns if dns else m_ns)).upper()
        exp_ew = (g['ew'][0] if g['ew'] else (dew if dew else m_ew)).upper()
        tw = val(g['twpnum'])
        rg = val(g['rgenum'] if g['rgenum'] is not None else g['rgenum_edgecase_rge2'])
        return out == f'T{tw}{exp_ns}-R{rg}{exp_ew}'

    st = explore(target, timeout=ob.params.get('cap', 1500), max_viol=4)
    info = dict(bound=f'number strings {nums} / OCR look-alikes {ocr_nums}, 6x6 direction spellings or absent, 3x3 defaults, 2x2 MasterConfig, ocr_scrub, range-2 edge case',
                samples=[{'twpnum': '007', 'ns': None, 'default_ns': None, 'MasterConfig.default_ns': 's', 'expected': 'T7S-...'}])
    return from_explore(st, info, lambda vs: [violation('unpack_twprge-value', f'unpack_twprge gives the wrong Twp/Rge for {v["args"]}; {v["exc"]}',
                                                        'c08_api', {'text': 'T007-R097 Sec 14: NE/4', 'default_ns': 's', 'default_ew': 'e', 'expect': 'T7S-R97E'}) for v in vs[:2]])


# ------------------------------------------------------------------ S: default precedence and fixed_twprge on the real API
TEXTS_D = ('T154-R97 Sec 14: NE/4', 'T154N-R97 Sec 14: NE/4', 'T154-R97W Sec 14: NE/4', 'T154N-R97W Sec 14: NE/4',
           'Township 154, Range 97 West, Section 14: NE/4', 'T154-R97 Sec 14: NE/4\nT154N-R97W Sec 15: W/2')


def ob_s_defaults(ob):
    from engine.xh import explore, choose
    import pytrs
    from pytrs.parser.config import MasterConfig

    fixed_how = ob.params.get('how')

    def target(ti: int, cn: int, ce: int, kn: int, ke: int, mn: bool, me: bool, how: int):
        text = choose(ti, TEXTS_D)
        cns, cew = choose(cn, (None, 'n', 's')), choose(ce, (None, 'e', 'w'))
        kns, kew = choose(kn, (None, 'n', 's')), choose(ke, (None, 'e', 'w'))
        how = fixed_how if fixed_how is not None else choose(how, range(3))
        save = (MasterConfig.default_ns, MasterConfig.default_ew)
        MasterConfig.default_ns, MasterConfig.default_ew = ('s' if mn else 'n'), ('e' if me else 'w')
        try:
            return defaults_verdict(text, cns, cew, kns, kew, how) is None
        finally:
            MasterConfig.default_ns, MasterConfig.default_ew = save

    st = explore(target, timeout=ob.params.get('cap', 1500), max_viol=4)
    info = dict(bound=f'{len(TEXTS_D)} texts with / without each direction x config default x keyword default x MasterConfig x entry point (parse | preprocess | find_twprge)',
                samples=[{'text': TEXTS_D[0], 'config': 's', 'keyword default_ew': 'e'}])
    cl = lambda x, n: x if 0 <= x < n - 1 else n - 1
    D3n, D3e = (None, 'n', 's'), (None, 'e', 'w')

    def mk(vs):
        out = []
        for v in vs[:3]:
            a = v['args']
            args = {'text': TEXTS_D[cl(a['ti'], len(TEXTS_D))], 'cns': D3n[cl(a['cn'], 3)], 'cew': D3e[cl(a['ce'], 3)], 'kns': D3n[cl(a['kn'], 3)],
                    'kew': D3e[cl(a['ke'], 3)], 'mns': 's' if a['mn'] else 'n', 'mew': 'e' if a['me'] else 'w', 'how': fixed_how if fixed_how is not None else cl(a['how'], 3)}
            out.append(violation('default-direction-precedence', f'missing direction not filled by keyword > config > MasterConfig (or an explicit one overridden) for {args}; {v["exc"]}',
                                 'c08_defaults', args))
        return out
    return from_explore(st, info, mk)


def defaults_verdict(text, cns, cew, kns, kew, how):
    """runs under whatever MasterConfig is in force"""
    import re
    import pytrs
    MC = pytrs.MasterConfig
    m = re.search(r'(?:T|Township )154(N?)[-, ]+(?:R|Range )97( ?W(?:est)?)?', text)
    has_ns, has_ew = bool(m.group(1)), bool(m.group(2))
    ens = 'N' if has_ns else (kns or cns or MC.default_ns).upper()
    eew = 'W' if has_ew else (kew or cew or MC.default_ew).upper()
    canon = f'T154{ens}-R97{eew}'
    cfg = ','.join(x for x in (cns, cew) if x)
    if how == 0:
        d = pytrs.PLSSDesc(text, config=cfg, wait_to_parse=True)
        d.parse(default_ns=kns, default_ew=kew)
        want_trs = [f'154{ens.lower()}97{eew.lower()}14'] + (['154n97w15'] if 'Sec 15' in text else [])
        if canon not in d.pp_desc or [t.trs for t in d.tracts] != want_trs:
            return f'parse: pp_desc {d.pp_desc!r}, tracts {[t.trs for t in d.tracts]}, expected {canon}'
        fixed = any(f.startswith('fixed_twprge') for f in d.w_flags)
        if fixed != (not (has_ns and has_ew)):
            return f'fixed_twprge warning {"missing" if not fixed else "spurious"}: {d.w_flags}'
        ref = pytrs.PLSSDesc(text.replace(m.group(0), canon))
        if [(t.trs, t.desc) for t in ref.tracts] != [(t.trs, t.desc) for t in d.tracts]:
            return 'tracts differ from the written-out form'
    elif how == 1:
        d = pytrs.PLSSDesc(text, config=cfg, wait_to_parse=True)
        pp = d.preprocess(default_ns=kns, default_ew=kew)
        if canon not in pp:
            return f'preprocess: {pp!r}, expected {canon}'
    else:
        got = pytrs.find_twprge(text, default_ns=kns or cns, default_ew=kew or cew, preprocess=True)
        if got != [canon] + (['T154N-R97W'] if 'Sec 15' in text else []):
            return f'find_twprge: {got}, expected {[canon]}'
    return None


# ------------------------------------------------------------------ S: rendered spellings through the public API
def render(form, n, m, D, E, case):
    out = []
    for p in FORMS[form]:
        if p[0] == 'lit':
            out.append(p[1][0])
        elif p[0] == 'n':
            out.append(str(n))
        elif p[0] == 'm':
            out.append(str(m))
        elif p[0] == 'D':
            out.append(p[1][D])
        else:
            out.append(p[1][E])
    s = ''.join(out)
    return (s, s.lower(), s.upper())[case]


def ob_api(ob):
    from engine.xh import explore, choose
    import pytrs
    forms = ob.params.get('forms') or list(FORMS)
    nums = ob.params.get('nums') or (1, 7, 97, 154, 2)
    ctxs = (('', ' Sec 14: NE/4'), ('NE/4 of Section 14, ', ''), ('Lot 2, ', '\nSec 1: N2'), ('', ', Sec 14: NE/4; '))[:ob.params.get('nctx', 4)]

    def target(fi: int, ni: int, mi: int, D: bool, E: bool, case: int, ctx: int):
        form = choose(fi, forms)
        n, m = choose(ni, nums), choose(mi, nums)
        if m == 2 and not HAS_R[form]:
            return True
        sp = render(form, n, m, int(D), int(E), choose(case, range(3)))
        pre, post = choose(ctx, ctxs)
        return api_verdict(pre + sp + post, n, m, 'NS'[int(D)], 'WE'[int(E)]) is None

    st = explore(target, timeout=ob.params.get('cap', 1500), max_viol=4)
    info = dict(bound=f'{len(forms)} forms x numbers {nums} x directions x 3 casings x 4 surrounding descriptions', samples=[{'text': 'twp. 7 s., rge. 154 e. Sec 14: NE/4'}])
    cl = lambda x, n: x if 0 <= x < n - 1 else n - 1

    def mk(vs):
        out = []
        for v in vs[:3]:
            a = v['args']
            form = forms[cl(a['fi'], len(forms))]
            n, m = nums[cl(a['ni'], len(nums))], nums[cl(a['mi'], len(nums))]
            sp = render(form, n, m, int(a['D']), int(a['E']), cl(a['case'], 3))
            pre, post = ctxs[cl(a['ctx'], len(ctxs))]
            out.append(violation(f'twprge-api:{form}', f'{pre + sp + post!r}: {api_verdict(pre + sp + post, n, m, "NS"[int(a["D"])], "WE"[int(a["E"])])}',
                                 'c08_api', {'text': pre + sp + post, 'default_ns': None, 'default_ew': None, 'expect': f'T{n}{"NS"[int(a["D"])]}-R{m}{"WE"[int(a["E"])]}'}))
        return out
    return from_explore(st, info, mk)


def api_verdict(text, n, m, D, E):
    import pytrs
    canon = f'T{n}{D}-R{m}{E}'
    d = pytrs.PLSSDesc(text)
    if canon not in d.pp_desc:
        return f'pp_desc {d.pp_desc!r} lacks {canon}'
    got = pytrs.find_twprge(text, preprocess=True)
    if got != [canon]:
        return f'find_twprge gives {got}, expected {[canon]}'
    if not d.tracts or any(t.twprge != f'{n}{D.lower()}{m}{E.lower()}' for t in d.tracts):
        return f'tracts {[(t.trs, t.desc) for t in d.tracts]} are not all in {canon}'
    if any(f.startswith('fixed_twprge') for f in d.w_flags):
        return f'spurious fixed_twprge warning {d.w_flags}'
    return None


def obligations(tier):
    q = tier == 'quick'
    obs = []
    K, N = (3, 40) if q else (5, 48)
    for form in FORMS:
        short = form.replace(' ', '_').replace('.', '').replace(',', '')
        obs.append(Ob(f'm_spelling_{short}', 'M', ob_m_spelling, f'twprge_regex matches {form!r} (3 casings) exactly, groups on fields',
                      functions=['twprge_regex'], weight=9, timeout=4000,
                      params={'form': form, 'pattern': 'twprge_regex', 'K': K if len(form) < 20 else 2, 'N': N if len(form) < 20 else N + 8, 'cap': 1500 if q else 3600}))
    for pname in ('pp_twprge_no_nswe', 'pp_twprge_no_nsr', 'pp_twprge_no_ewt', 'pp_twprge_pm', 'pp_twprge_comma_remove'):
        obs.append(Ob(f'm_canonical_{pname}', 'M', ob_m_spelling, f'{pname} re-matches the canonical form with the same fields', functions=[pname],
                      weight=8, timeout=4000, params={'form': 'T154N-R97W', 'pattern': pname, 'K': 2, 'N': 24, 'cap': 1500, 'canonical': True}))
    for drop, pname, form in ((('D',), 'pp_twprge_no_nswe', 'T154N-R97W'), (('E',), 'pp_twprge_no_nswe', 'T154N-R97W'), (('D', 'E'), 'pp_twprge_no_nswe', 'T154N-R97W'),
                              (('D', 'E'), 'pp_twprge_no_nswe', 'T154N R97W'), (('D',), 'pp_twprge_no_nswe', 'Township 154 North, Range 97 West')):
        short = form.replace(' ', '_').replace('.', '').replace(',', '')
        obs.append(Ob(f'm_missing_{"".join(drop)}_{short}', 'M', ob_m_spelling, f'{pname} matches {form!r} without {drop} (group absent)', functions=[pname],
                      weight=8, timeout=4000, params={'form': form, 'pattern': pname, 'drop': drop, 'K': 2, 'N': 28 if len(form) < 20 else 46, 'cap': 1500}))
        obs.append(Ob(f'm_nomatch_{"".join(drop)}_{short}', 'M', ob_m_spelling, f'twprge_regex does not claim {form!r} without {drop}', functions=['twprge_regex'],
                      weight=6, timeout=4000, params={'form': form, 'pattern': 'twprge_regex', 'drop': drop, 'expect_match': False, 'K': 2,
                                                      'N': 28 if len(form) < 20 else 46, 'cap': 1500}))
    for form in ('T154N-R97W', 'T154N R97W', 'Township 154 North, Range 97 West'):
        short = form.replace(' ', '_').replace('.', '').replace(',', '')
        obs.append(Ob(f'm_ocr_{short}', 'M', ob_m_spelling, f'pp_twprge_ocr_scrub on {form!r} with OCR look-alikes in the numbers: groups on fields',
                      functions=['pp_twprge_ocr_scrub'], weight=9, timeout=4000,
                      params={'form': form, 'pattern': 'pp_twprge_ocr_scrub', 'K': 2, 'N': 24 if len(form) < 20 else 44, 'cap': 1500, 'ocr': True}))
    for which in ('twp', 'rge'):
        obs.append(Ob(f's_unpack_values_{which}', 'S', ob_s_unpack, f'unpack_twprge ({which}): leading zeros, explicit direction kept, defaults only for absent groups, OCR letters',
                      functions=['unpack_twprge', 'ocr_scrub_alpha_to_num'], weight=6, timeout=3000, params={'cap': 2700, 'which': which}))
    for how, hn in enumerate(('parse', 'preprocess', 'find_twprge')):
        obs.append(Ob(f's_default_precedence_{hn}', 'S', ob_s_defaults, f'missing directions via {hn}: keyword > config > MasterConfig; fixed_twprge warning; same tracts as written out',
                      functions=['PLSSDesc.parse', 'PLSSDesc.preprocess', 'find_twprge', 'plss_preprocess', 'sub_scrubber', 'unpack_twprge'], weight=7,
                      timeout=4000, params={'cap': 3600, 'how': how}))
    fl = list(FORMS)
    for sh in range(3):
        obs.append(Ob(f'api_spellings_{sh}', 'S', ob_api, 'rendered spellings through PLSSDesc / find_twprge', functions=['PLSSDesc', 'find_twprge', 'plss_preprocess'],
                      weight=7, timeout=4000, params={'cap': 3600, 'forms': fl[sh::3], 'nums': (7, 154, 2) if q else None, 'nctx': 2 if q else 4}))
    return obs
