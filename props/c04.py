"""C04 -- no description text is silently dropped."""
from engine.framework import Ob, result, violation, from_explore

PROPERTY = 'C04'
LEVEL = 'other'
FILES = ['pytrs/parser/plssdesc/plss_parse.py', 'pytrs/parser/plssdesc/plss_preprocess.py', 'pytrs/parser/rgxlib/twprge.py']
ASSUMPTIONS = [
    'provenance-document harness shared with C03: every document index of a filler word must end up in a tract description '
    '(by provenance; by content where formatting lost the provenance) or in the context of an unused_desc error flag',
    'preprocessing: engine M on the live SCRUBBER_REGEXES with a template Twp/Rge spelling + separator + lower-case prose word: a '
    'match may not reach into the word',
    'two drops are by design and listed as known findings (classes cull-word and short-block); so is the removal of up to 25 '
    'characters between a Twp/Rge and a principal-meridian designation',
]
EXPLANATION = ('Engine S (CrossHair) runs the real marker walk / chunker / rebuild_sec_within / cleanup_desc / examine_unused on the '
               'bounded document family and accounts for every filler word; engine M (z3) proves on the live preprocessing patterns '
               'that a substitution never takes characters of a following prose word.')


def ob_glue_cover(ob):
    from engine.xh import explore
    from props import plss_abs as P
    from props.c10 import mode_cfg
    from props.c04_ref import dropped_words
    mmax, fill, modes = ob.params['mmax'], ob.params['fill'], ob.params['modes']
    seen_known = {}

    def verdict(doc, parser):
        cov, loose = P.covered_indexes(doc, parser)
        return dropped_words(doc.string, doc.filler_spans, cov, loose)

    def oracle(doc, mode, parser, exc):
        if exc is not None:
            return True
        dw = verdict(doc, parser)
        unexpected = [x for x in dw if x[0] == 'word']
        for cls, w in dw:
            if cls != 'word' and cls not in seen_known:      # by-design classes: remember one example each, go on
                seen_known[cls] = (doc.string, mode, w)
        return not unexpected

    if ob.params.get('three'):
        # three-segment documents of restricted shape (Twp/Rge or section first, then sections) so that several tracts and
        # several unused blocks occur together already in the quick tier
        from engine.xh import choose

        def target(v0: int, v1: int, v2: int, f0: int, f1: int, f2: int, f3: int, mode: int):
            variants = [choose(v0, (0, 1)), choose(v1, (0, 1, 2)), choose(v2, (1, 2))]
            fillers = [choose(f, fill) for f in (f0, f1, f2, f3)]
            md = choose(mode, modes)
            doc = P.build_doc(variants, fillers)
            try:
                parser = P.run_parser(doc, md)
            except Exception as e:  # noqa
                return oracle(doc, md, None, e)
            return oracle(doc, md, parser, None)
        st = explore(target, timeout=ob.params.get('cap', 900), max_viol=20)
    else:
        st = explore(P.make_target(mmax, fill, modes, oracle), timeout=ob.params.get('cap', 900), max_viol=20)
    info = dict(bound=(f'3-segment documents (Twp/Rge|section, Twp/Rge|section, section) x fillers {[P.FILLERS[f] for f in fill]} x modes {modes}' if ob.params.get('three') else
                       f'documents of 0..{mmax} segments x fillers {[P.FILLERS[f] for f in fill]} x modes {modes}'),
                samples=[{'doc': ' xq1z T150N-R90W Sec 11: NE/4 ', 'mode': modes[0], 'by_design_classes_seen': sorted(seen_known)}])
    known_viols = [violation(f'dropped:{cls}', f'PLSSDesc({text!r}, config={mode_cfg(mode)!r}): the word {w!r} is in no tract '
                             f'description and no unused_desc flag', 'c04_words', {'text': text, 'config': mode_cfg(mode), 'cls': cls})
                   for cls, (text, mode, w) in sorted(seen_known.items())]

    def mk(vs):
        out = {}
        for v in vs:
            if ob.params.get('three'):
                a = v['args']
                cl = lambda x, n: x if 0 <= x < n - 1 else n - 1
                variants = [(0, 1)[cl(a['v0'], 2)], (0, 1, 2)[cl(a['v1'], 3)], (1, 2)[cl(a['v2'], 2)]]
                fillers = [list(fill)[cl(a[f'f{i}'], len(fill))] for i in range(4)]
                mode = list(modes)[cl(a['mode'], len(modes))]
            else:
                variants, fillers, mode = P.decode(v['args'], mmax, fill, modes)
            doc = P.build_doc(variants, fillers)
            cfg = mode_cfg(mode)
            try:
                dw = verdict(doc, P.run_parser(doc, mode))
            except Exception as e:  # noqa
                continue
            for cls, w in dw:
                if cls != 'word':
                    continue
                out.setdefault(doc.string, violation(
                    'dropped:word', f'PLSSDesc({doc.string!r}, config={cfg!r}): the word {w!r} is in no tract description and no unused_desc flag',
                    'c04_words', {'text': doc.string, 'config': cfg, 'cls': cls}))
        return list(out.values())
    r = from_explore(st, info, mk)
    if r['verdict'] in ('holds', 'violated'):
        r['violations'] = list(r.get('violations', [])) + known_viols
    return r


def ob_pp_span(ob):
    """no preprocessing substitution takes characters of a following prose word (or of a preceding one)"""
    import time
    import z3
    import pytrs.parser.rgxlib as R
    from engine.matcher import Text, Matcher, UCHARS, WORD, validate, inset
    from engine.templates import Template, Alt, Fill, Digits
    pname = ob.params['pattern']
    pat = getattr(R, pname)
    with_pm = ob.params.get('with_pm', False)
    N = ob.params['N']
    strings = ['T154N-R97W development', 'T154N-R97W of the 5th P.M.', 'Township 154 North, Range 97 West', 'x T2N-R2W y',
               '154N-97W abc', 'T154N-R97W, 5PM', 'nothing']
    ag, tot, bad = validate(pat, strings, 40)
    if bad:
        return result('error', notes=[f'translator validation: {bad[:2]}'], validated=tot)
    T = Text(N)
    segs = [Alt('t', ['T', 'Township ', '']), Digits('a', 1, 3, no_leading_zero=True), Alt('ns', ['N', 'S', ' North', ' South']),
            Alt('mid', ['-', ' ', ', ', '-R', ' R', ', Range ', '-Range ']), Digits('b', 2, 3, no_leading_zero=True),
            Alt('ew', ['W', 'E', ' West', ' East']), Alt('sep', [' ', ', ', '\n', ' : ']),
            Fill('word', 'abcdefghijklmnopqrstuvwxyz ', 1, ob.params.get('wlen', 8), first_not=' ', last_not=' ')]
    if with_pm:
        segs += [Alt('pm', [' P.M.', ' PM', ' Principal Meridian'])]
    tpl = Template(segs, T)
    M = Matcher(pat, T)
    base = T.wf() + tpl.cons + M.cons
    sol = z3.Solver()
    sol.set('timeout', ob.params.get('cap', 300) * 1000)
    sol.add(*base)
    t0 = time.time()
    twin = str(sol.check())
    sample = T.value(sol.model()) if twin == 'sat' else None
    # violation: the (first) match exists and reaches into the prose
    reach = z3.And(M.matched, M.endv > tpl.lo('word'))
    letters = 'abcdefghijklmnopqrstuvwxyzABCDEFGHIJKLMNOPQRSTUVWXYZ'
    if pname == 'pp_twprge_pm':
        # the principal-meridian part is the outermost group of the embedded pm_regex (two inner groups follow it)
        pm_o, pm_c = M.span(pat.groups - 2)
        mid_word = z3.Or(z3.And(pm_o > 0, inset(T.at(pm_o - 1), letters)), z3.And(M.endv < T.L, inset(T.at(M.endv), letters)))
        sol.add(reach, mid_word if not with_pm else z3.Not(mid_word))
    else:
        sol.add(reach)
    r = str(sol.check())
    dt = time.time() - t0
    info = dict(queries=2, distinct=1, solver_s=round(dt, 2), validated=tot, states=M.n_states, transitions=M.n_transitions,
                bound=f'Twp/Rge in 3x4x7x4 spelling combinations with symbolic 1-3 digit numbers, separator, lower-case prose of 1..'
                      f'{ob.params.get("wlen", 8)} characters' + (', followed by a P.M. designation' if with_pm else '') + f'; N={N}',
                samples=[{'pattern': pname, 'instance': sample, 'answer': r}])
    if twin != 'sat':
        return result('error', notes=['twin ' + twin], **info)
    if r == 'unsat':
        return result('holds', **info)
    if r != 'sat':
        return result('inconclusive', notes=[r], **info)
    w = T.value(sol.model())
    m = sol.model()
    end = m.eval(M.endv).as_long()
    key = f'pp-swallow:{pname}:' + ('before-pm' if with_pm else 'word')
    return result('violated', violations=[violation(key, f'{pname} matches {w[m.eval(M.startv).as_long():end]!r} in {w!r}: the '
                                                         f'substitution takes characters of the following text', 'c04_pp',
                                                    {'text': w, 'with_pm': with_pm})], **info)


def obligations(tier):
    q = tier == 'quick'
    from props import plss_abs as P
    G = ['ChunkParser._parse_meaningful', 'ChunkParser.populate_markers', 'PLSSParser.parse (examine_unused, flag_unused)',
         'PLSSChunker._segment_twprge_first', 'PLSSChunker._segment_twprge_last', 'rebuild_sec_within', 'cleanup_desc',
         'PLSSParser.construct_tracts', 'ChunkParser._parse_copyall']
    obs = []
    for mname in P.MODES:
        obs.append(Ob(f'cover_{mname}', 'S', ob_glue_cover, f'every filler word accounted for, mode {mname}', functions=G, weight=6,
                      timeout=7000, params={'mmax': 2 if q else 3, 'fill': (0, 2, 3, 4) if q else (0, 3, 5), 'modes': [mname],
                                            'cap': 2100 if q else 6500}))
    for grp in (['sec_within', 'segment_within'], ['default', 'segment'], ['colon_cautious', 'TR_desc_S']):
        obs.append(Ob(f'cover3_{grp[0]}', 'S', ob_glue_cover, f'three-segment documents, modes {grp}', functions=G, weight=6, timeout=7000,
                      params={'mmax': 3, 'fill': (0, 3, 4), 'modes': grp, 'cap': 2100, 'three': True}))
    for pname in ('twprge_regex', 'pp_twprge_no_nswe', 'pp_twprge_no_nsr', 'pp_twprge_no_ewt', 'pp_twprge_pm', 'pp_twprge_comma_remove'):
        obs.append(Ob(f'pp_span_{pname}', 'M', ob_pp_span, f'{pname} never reaches into a following prose word', functions=[pname],
                      weight=8, timeout=3000, params={'pattern': pname, 'N': 32 if q else 44, 'wlen': 5 if q else 10, 'cap': 600 if q else 3000}))
    obs.append(Ob('pp_span_pm_before_pm', 'M', ob_pp_span, 'pp_twprge_pm before a P.M. designation (by design: known finding)',
                  functions=['pp_twprge_pm', 'pm_regex'], weight=8, timeout=3000,
                  params={'pattern': 'pp_twprge_pm', 'N': 44, 'wlen': 4, 'with_pm': True, 'cap': 600 if q else 2400}))
    return obs
