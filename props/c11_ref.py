"""C11 shared pieces (no z3/CrossHair imports)"""


def whole(desc, text):
    """desc carries the complete text (up to separators / cull words at the edges)"""
    from props.c04_ref import CULL
    d = str(desc)
    if d == text:
        return True
    i = text.find(d)
    if i < 0 or not d:
        return False
    rest = (text[:i] + ' ' + text[i + len(d):]).replace(',', ' ').replace(';', ' ').replace(':', ' ').replace('.', ' ').replace('-', ' ')
    return all(w.lower() in CULL for w in rest.split())


