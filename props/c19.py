"""C19 -- bulk export is faithful, ordered and total over documented attributes (csv layer stubbed)."""
from engine.framework import Ob, result, violation, from_explore

PROPERTY = 'C19'
LEVEL = 'other'
FILES = ['pytrs/parser/containers/containers.py', 'pytrs/tractwriter/tractwriter.py', 'pytrs/parser/tract/tract.py',
         'pytrs/utils/__init__.py']
ASSUMPTIONS = [
    'csv.writer and open() are replaced by in-memory recorders inside the S harness (CrossHair forbids file writes); '
    'quoting/escaping by the C csv module and real files are covered only by the public-API replay of a counterexample',
    'tracts come from a 4-description corpus parsed by the real PLSSDesc (lots with acreages, lot divisions, '
    'duplicate lots, multi-line text, quotes, commas, error and warning flags with context); which description, which '
    'attribute names, which export path, header option and file mode are the symbolic choices',
]
EXPLANATION = ('CrossHair drives the real Tract.to_dict/to_list, TractList.tracts_to_dict/tracts_to_list/iter_to_dict/'
               'iter_to_list/tracts_to_csv and TractWriter.write/_scrub_row/write_headers over symbolic choices of corpus '
               'description, attribute-name list (every name in Tract.ATTRIBUTES plus unknown names, 1-3 names in any '
               'order), header option and file mode; each path is compared with getattr-based expected records and the '
               'documented cell rendering.')

OPS = ('to_dict', 'to_list', 'tracts_to_dict', 'tracts_to_list', 'iter_to_dict', 'iter_to_list', 'plss_wrappers',
       'tracts_to_csv', 'tractwriter')


def _pick(idx, seq):
    for i, v in enumerate(seq):
        if idx == i:
            return v
    raise AssertionError


class _Rec:
    rows = None

    def __init__(self, f, *a, **k):
        pass

    def writerow(self, row):
        _Rec.rows.append(list(row))


_FS = set()          # virtual file system: paths that 'exist' (opening a file for writing / appending creates it)


class _FakeFile:
    def __init__(self, fp=None, mode='r', *a, **k):
        self.closed = False
        if fp is not None and mode and mode[0] in 'wa':
            _FS.add(str(fp))

    def __enter__(self):
        return self

    def __exit__(self, *a):
        self.closed = True
        return False

    def close(self):
        self.closed = True

    def write(self, *a):
        return 0


def _export(op, tl, desc_obj, atts, exists, mode, nice, csvmod, cont_mod, tw_mod):
    """run one export path; returns ('records', list) or ('rows', header_or_None, rows)"""
    from pytrs.parser.tract import Tract
    if op == 'to_dict':
        return 'records', [t.to_dict(*atts) for t in tl]
    if op == 'to_list':
        return 'records', [t.to_list(atts) for t in tl]
    if op == 'tracts_to_dict':
        return 'records', tl.tracts_to_dict(atts)
    if op == 'tracts_to_list':
        return 'records', tl.tracts_to_list(*atts)
    if op == 'iter_to_dict':
        return 'records', list(tl.iter_to_dict(*atts))
    if op == 'iter_to_list':
        return 'records', list(tl.iter_to_list(atts))
    if op == 'plss_wrappers':
        a = desc_obj.tracts_to_dict(*atts)
        b = desc_obj.tracts_to_list(atts)
        return 'records', a + b
    import pathlib
    fp = '/virtual_c19/existing.csv' if exists else '/virtual_c19/new.csv'
    _FS.clear()
    if exists:
        _FS.add(fp)
    _Rec.rows = []
    saved = (csvmod.writer, getattr(cont_mod, 'open', None), getattr(tw_mod, 'open', None))
    saved_exists = pathlib.Path.exists
    csvmod.writer = _Rec
    cont_mod.open = _FakeFile
    tw_mod.open = _FakeFile
    pathlib.Path.exists = lambda self_, *a, **k: str(self_) in _FS
    try:
        if op == 'tracts_to_csv':
            tl.tracts_to_csv(atts, fp, mode, nice_headers=nice)
        else:
            extra = getattr(_export, 'extra', None)       # None | 'plus' (plus_cols) | 'uid'
            w = tw_mod.TractWriter(list(atts), fp, mode, nice_headers=nice, plus_cols=['Report Date'] if extra == 'plus' else None,
                                   uid=1 if extra == 'uid' else None)
            n = w.write(tl, plus_cols=['2020-01-01'] if extra == 'plus' else None)
            w.close()
            if n != len(tl):
                return 'rows', 'BAD-COUNT', []
    finally:
        csvmod.writer = saved[0]
        pathlib.Path.exists = saved_exists
        for m, o in ((cont_mod, saved[1]), (tw_mod, saved[2])):
            if o is None:
                try:
                    delattr(m, 'open')
                except AttributeError:
                    pass
            else:
                m.open = o
    rows = _Rec.rows
    want_header = not (exists and mode == 'a')
    if want_header:
        if not rows:
            return 'rows', 'MISSING-HEADER', []
        return 'rows', rows[0], rows[1:]
    return 'rows', None, rows


def make_target(names, nmax, ops):
    from engine.xh import IgnoreAttempt, NoTracing
    import csv as csvmod
    import pytrs.parser.containers.containers as cont_mod
    import pytrs.tractwriter.tractwriter as tw_mod
    from pytrs.parser.plssdesc import PLSSDesc
    from pytrs.parser.tract import Tract
    from props.c19_ref import CORPUS, cell, expected_value
    cache = {}

    def corpus(ci):
        with NoTracing():
            if ci not in cache:
                txt, pq = CORPUS[ci]
                cache[ci] = PLSSDesc(txt, parse_qq=pq)
            return cache[ci]

    from engine.xh import choose
    writers = all(o in ('tracts_to_csv', 'tractwriter') for o in ops)
    na = nmax

    def body(ci, idx, op, exists, append, nice):
        ci = choose(ci, range(len(CORPUS)))
        op = choose(op, ops)
        idx = [choose(a, range(len(names))) for a in idx]
        atts = [names[i] for i in idx]
        nice = choose(nice, range(6)) if writers else 0
        # header options 4 / 5: plain headers plus the writer's additional columns (plus_cols / uid); TractWriter only
        extra = None
        if nice >= 4:
            extra = ('plus', 'uid')[nice - 4] if op == 'tractwriter' else None
            nice = 0
        _export.extra = extra
        d = corpus(ci)
        tl = d.tracts
        mode = 'a' if append else 'w'
        nice_val = (False, True, ['H%d' % i for i in range(na)], {atts[0]: 'Custom'})[nice]
        res = _export(op, tl, d, atts, exists, mode, nice_val, csvmod, cont_mod, tw_mod)
        with NoTracing():
            exp = [[expected_value(t, a) for a in atts] for t in tl]
            if res[0] == 'records':
                recs = res[1]
                if op == 'plss_wrappers':
                    if len(recs) != 2 * len(tl):
                        return False
                    recs_d, recs_l = recs[:len(tl)], recs[len(tl):]
                    return ([[r[a] for a in atts] for r in recs_d] == exp and [list(r) for r in recs_l] == exp
                            and all(list(r.keys()) == list(dict.fromkeys(atts)) for r in recs_d))
                if len(recs) != len(tl):
                    return False
                if 'dict' in op:
                    return all(list(r.keys()) == list(dict.fromkeys(atts)) for r in recs) and \
                        [[r[a] for a in atts] for r in recs] == exp
                return [list(r) for r in recs] == exp
            _, header, rows = res
            if isinstance(header, str):
                return False
            if len(rows) != len(tl):
                return False
            if extra is not None:
                # one additional cell per row (the given value / a generated id) and one additional header
                if any(len(r) != len(atts) + 1 for r in rows) or (extra == 'plus' and any(r[-1] != '2020-01-01' for r in rows)):
                    return False
                rows = [list(r)[:-1] for r in rows]
                if header is not None:
                    if list(header)[-1:] != [('Report Date', 'UID')[extra == 'uid']]:
                        return False
                    header = list(header)[:-1]
            if [list(r) for r in rows] != [[cell(v) for v in e] for e in exp]:
                return False
            if header is not None:
                want = {0: list(atts), 1: [Tract.ATTRIBUTES.get(a, a) for a in atts],
                        2: ['H%d' % i for i in range(na)], 3: [('Custom' if a == atts[0] else a) for a in atts]}[nice]
                if list(header) != want:
                    return False
            return True
    if writers:
        if na == 1:
            def target(ci: int, a0: int, op: int, exists: bool, append: bool, nice: int):
                return body(ci, [a0], op, exists, append, nice)
        elif na == 2:
            def target(ci: int, a0: int, a1: int, op: int, exists: bool, append: bool, nice: int):
                return body(ci, [a0, a1], op, exists, append, nice)
        else:
            def target(ci: int, a0: int, a1: int, a2: int, op: int, exists: bool, append: bool, nice: int):
                return body(ci, [a0, a1, a2], op, exists, append, nice)
    else:
        if na == 1:
            def target(ci: int, a0: int, op: int):
                return body(ci, [a0], op, False, False, 0)
        elif na == 2:
            def target(ci: int, a0: int, a1: int, op: int):
                return body(ci, [a0, a1], op, False, False, 0)
        else:
            def target(ci: int, a0: int, a1: int, a2: int, op: int):
                return body(ci, [a0, a1, a2], op, False, False, 0)
    return target


def ob_export(ob):
    from engine.xh import explore
    from pytrs.parser.tract import Tract
    from props.c19_ref import UNKNOWN, CORPUS
    names = list(ob.params.get('names') or (list(Tract.ATTRIBUTES.keys()) + list(UNKNOWN)))
    ops = ob.params['ops']
    target = make_target(names, ob.params['nmax'], ops)
    st = explore(target, timeout=ob.params.get('cap', 600), max_viol=ob.params.get('max_viol', 40))
    info = dict(bound=f'{len(CORPUS)} corpus descriptions x attribute lists of length 1..{ob.params["nmax"]} over {len(names)} '
                      f'names x export paths {ops} x file exists/not x mode w/a x 4 header options (+ plus_cols / uid columns for TractWriter)',
                samples=[{'attributes': names[:6] + ['...'], 'ops': ops}])

    def mk(vs):
        out = []
        for v in vs:
            a = v['args']
            atts = [names[min(max(a[f'a{i}'], 0), len(names) - 1) if 0 <= a[f'a{i}'] < len(names) - 1 else len(names) - 1] for i in range(ob.params['nmax'])]
            op = ops[a['op']] if 0 <= a['op'] < len(ops) - 1 else ops[-1]
            writer = op in ('tracts_to_csv', 'tractwriter')
            key = f'export:{op}:' + ('cell-join' if writer and v['exc'] and 'TypeError' in v['exc'] else 'mismatch')
            out.append(violation(key, f'{op} with attributes {atts} on corpus #{a["ci"]}: {v["exc"] or "records differ from attributes"}',
                                 'c19_export', {'ci': int(a['ci']) if 0 <= a['ci'] < len(CORPUS) - 1 else len(CORPUS) - 1,
                                                'atts': atts, 'op': op, 'exists': bool(a.get('exists', False)),
                                                'append': bool(a.get('append', False)),
                                                'nice': (int(a['nice']) if 0 <= a['nice'] < 5 else 5) if 'nice' in a else 0}))
        return out
    return from_explore(st, info, mk)


def obligations(tier):
    q = tier == 'quick'
    F1 = ['Tract.to_dict', 'Tract.to_list', 'TractList.tracts_to_dict', 'TractList.tracts_to_list',
          'TractList.iter_to_dict', 'TractList.iter_to_list', 'PLSSDesc.tracts_to_dict', 'PLSSDesc.tracts_to_list',
          'utils._confirm_list_of_strings', 'utils.flatten']
    F2 = ['TractList.tracts_to_csv (scrub_row)', 'TractWriter.__init__', 'TractWriter.write', 'TractWriter._scrub_row',
          'TractWriter.write_headers', 'Tract.get_headers', 'utils.flatten']
    small = ['trs', 'lots', 'lot_acres', 'nonesuch'] if q else ['trs', 'lots', 'desc', 'lot_acres', 'nonesuch', 'w_flag_lines']
    obs = [
        Ob('records_single', 'S', ob_export, 'records: every single attribute name, every record path', functions=F1,
           weight=4, timeout=1800, params={'nmax': 1, 'ops': OPS[:7], 'cap': 1500}),
        Ob('writers_single', 'S', ob_export, 'csv writers: every single attribute name, header/mode options',
           functions=F2, weight=6, timeout=1800, params={'nmax': 1, 'ops': OPS[7:], 'cap': 1500}),
        Ob('records_multi', 'S', ob_export, 'records: attribute lists of length 2 (3 thorough) in any order', functions=F1,
           weight=5, timeout=2400, params={'nmax': 2 if q else 3, 'ops': OPS[:7], 'names': small, 'cap': 2100}),
        Ob('writers_multi', 'S', ob_export, 'csv writers: attribute lists of length 2 (3 thorough) in any order',
           functions=F2, weight=6, timeout=2400, params={'nmax': 2 if q else 3, 'ops': OPS[7:], 'names': small, 'cap': 2100}),
    ]
    return obs
