"""replay_defs.py -- one function per replay kind.  Each takes the JSON args of a candidate violation, exercises
the *public* pyTRS API only, and returns (violated: bool, observed: str).  No z3 / CrossHair imports here."""
import json

REPLAYS = {}


def replay(kind):
    def deco(fn):
        REPLAYS[kind] = fn
        return fn
    return deco


# ------------------------------------------------------------------ C12
@replay('c12_strict')
def c12_strict(s):
    import pytrs
    from spec import trs_spec as SP
    t = pytrs.TRS(s)
    d = pytrs.trs_to_dict(s)
    std = SP.is_standard(s) or SP.is_standard(s.lower())
    no_error = (t.twp_num is not None or t.twp_undef) and (t.rge_num is not None or t.rge_undef) and \
               (t.sec_num is not None or t.sec_undef)
    bad = (not std) and s != '' and no_error
    return bad, f'TRS({s!r}).trs = {t.trs!r}; trs_to_dict -> {d["trs"]!r}; standard form: {std}'


@replay('c12_roundtrip')
def c12_roundtrip(s):
    import pytrs
    from spec import trs_spec as SP
    if not SP.is_standard(s):
        # strings with an absent section: expected error section, other components kept
        t = pytrs.TRS(s)
        return t.trs != s + SP.ERR_SEC, f'TRS({s!r}).trs = {t.trs!r}'
    d = SP.decompose(s)
    t = pytrs.TRS(s)
    diffs = {a: (getattr(t, a), d[a]) for a in d if getattr(t, a) != d[a]}
    return bool(diffs), f'TRS({s!r}): observed vs expected {diffs}'


@replay('c12_construct')
def c12_construct(tk, tn, tl, rk, rn, rl, sk, sn, dns, dew, mns, mew):
    import pytrs
    from spec import trs_spec as SP
    MC = pytrs.MasterConfig
    save = (MC.default_ns, MC.default_ew)
    MC.default_ns, MC.default_ew = mns, mew
    try:
        twp = SP.render_tr_input(tk, tn, tl)
        rge = SP.render_tr_input(rk, rn, rl)
        sec = SP.render_sec_input(sk, sn)
        exp = (SP.expect_tr(tk, tn, tl, dns, mns, SP.ERR_TWP, SP.UNDEF_TWP)
               + SP.expect_tr(rk, rn, rl, dew, mew, SP.ERR_RGE, SP.UNDEF_RGE) + SP.expect_sec(sk, sn))
        try:
            got = pytrs.TRS.construct_trs(twp, rge, sec, dns, dew)
            t = pytrs.TRS.from_twprgesec(twp, rge, sec, dns, dew)
        except Exception as e:  # noqa
            return True, f'construct_trs({twp!r},{rge!r},{sec!r},{dns!r},{dew!r}) raised {e!r}'
        d = SP.decompose(exp)
        diffs = {a: (getattr(t, a), d[a]) for a in d if getattr(t, a) != d[a]}
        t2 = pytrs.TRS(t.trs)
        eq = (t2 == t and hash(t2) == hash(t))
        bad = got != exp or bool(diffs) or not eq
        return bad, (f'construct_trs({twp!r},{rge!r},{sec!r},{dns!r},{dew!r}) [MasterConfig {mns},{mew}] = {got!r}, '
                     f'expected {exp!r}; from_twprgesec(...) attribute diffs (observed, expected): {diffs}; eq/hash ok: {eq}')
    finally:
        MC.default_ns, MC.default_ew = save


# ------------------------------------------------------------------ C17
def _c17_elements(kind, els):
    import pytrs
    out = []
    for (tn, td, rn, rd, sn, uid) in els:
        twp = 'XXXz' if td == 2 else f"{tn}{'ns'[td]}"
        rge = 'XXXz' if rd == 2 else f"{rn}{'we'[rd]}"
        sec = 'XX' if sn == 100 else f'{sn:02d}'
        out.append((uid, twp + rge + sec))
    if kind == 'tract':
        # real Tract objects get increasing creation counters: create them in uid order
        order = sorted(range(len(out)), key=lambda i: out[i][0])
        objs = [None] * len(out)
        for i in order:
            objs[i] = pytrs.Tract('x', trs=out[i][1])
        return objs
    return [pytrs.TRS(s) for _, s in out]


@replay('c17_sort')
def c17_sort(kind, key, els, rev_all):
    import pytrs
    from props.c17_ref import ref_rank, parse_ref
    objs = _c17_elements(kind, els)
    lst = (pytrs.TractList if kind == 'tract' else pytrs.TRSList)(objs)
    try:
        lst.custom_sort(key, reverse=rev_all)
    except Exception as e:  # noqa
        return True, f'raised {e!r}'
    got = [objs.index(x) if kind == 'tract' else None for x in lst]
    ref = list(objs)
    uid = {id(o): (e[5] if kind == 'tract' else 0) for o, e in zip(objs, els)}
    for sub, rev in parse_ref(key):
        ref = sorted(ref, key=lambda o: ref_rank(sub, o, uid[id(o)]), reverse=rev)
    if rev_all:
        ref.reverse()
    same = [id(a) for a in lst] == [id(b) for b in ref] if kind == 'tract' else [a.trs for a in lst] == [b.trs for b in ref]
    return (not same), f'key={key!r}: got {[x.trs for x in lst]}, reference {[x.trs for x in ref]}'


@replay('c17_invalid')
def c17_invalid(key, tract):
    import pytrs
    els = [pytrs.Tract('x', trs='5n5w01'), pytrs.Tract('y', trs='7s6e02')] if tract else ['5n5w01', '7s6e02']
    lst = (pytrs.TractList if tract else pytrs.TRSList)(els)
    try:
        lst.custom_sort(key)
    except ValueError as e:
        return False, f'ValueError({e})'
    except Exception as e:  # noqa
        return True, f'raised {e!r} instead of ValueError'
    return True, f'custom_sort({key!r}) returned without raising'


# ------------------------------------------------------------------ C18
C18_TRS_TABLE = ('154n97w14', '154n97w14', '155n97w01', 'XXXz97w14', '154nXXXz14', '154n97wXX', '___z97w14',
                 '154n___z14', '154n97w__', '___z___z__', 'XXXzXXXzXX')


@replay('c18_filter')
def c18_filter(n, pred, drop, kind, dupmask):
    import pytrs
    els = []
    for i in range(n):
        if i > 0 and (dupmask >> i) & 1:
            els.append(els[i - 1])
        else:
            els.append(pytrs.Tract('x', trs='1n1w%02d' % i) if kind else pytrs.TRS('1n1w%02d' % i))
    lst = (pytrs.TractList if kind else pytrs.TRSList)(els)
    pos = {}
    sel, rest = [], []
    for i, e in enumerate(els):
        j = pos.setdefault(id(e), i)
        (sel if (pred >> j) & 1 else rest).append(e)
    out = lst.filter(lambda x: bool((pred >> pos[id(x)]) & 1), drop=drop)
    bad = [id(x) for x in out] != [id(x) for x in sel] or [id(x) for x in lst] != [id(x) for x in (rest if drop else els)]
    return bad, f'returned {[x.trs for x in out]}, left {[x.trs for x in lst]}; expected {[x.trs for x in sel]} / {[x.trs for x in (rest if drop else els)]}'


@replay('c18_filter_errors')
def c18_filter_errors(n, e0, e1, e2, twp, rge, sec, undef, drop, kind, table):
    import pytrs
    from spec import trs_spec as SP
    idx = [e0, e1, e2][:n]
    C18_TRS_TABLE = table
    els = [pytrs.Tract('d', trs=C18_TRS_TABLE[i]) if kind else pytrs.TRS(C18_TRS_TABLE[i]) for i in idx]
    exp = []
    for i in idx:
        d = SP.decompose(C18_TRS_TABLE[i])
        is_err = (twp and d['twp_num'] is None and not d['twp_undef']) or (rge and d['rge_num'] is None and not d['rge_undef']) \
            or (sec and d['sec_num'] is None and not d['sec_undef'])
        is_undef = (twp and d['twp_undef']) or (rge and d['rge_undef']) or (sec and d['sec_undef'])
        exp.append(bool(is_err or (undef and is_undef)))
    lst = (pytrs.TractList if kind else pytrs.TRSList)(els)
    out = lst.filter_errors(twp=twp, rge=rge, sec=sec, undef=undef, drop=drop)
    sel = [e for e, x in zip(els, exp) if x]
    rest = [e for e, x in zip(els, exp) if not x]
    bad = [id(x) for x in out] != [id(x) for x in sel] or [id(x) for x in lst] != [id(x) for x in (rest if drop else els)]
    return bad, f'elements {[C18_TRS_TABLE[i] for i in idx]} flags twp={twp} rge={rge} sec={sec} undef={undef} drop={drop}: returned {[x.trs for x in out]}, left {[x.trs for x in lst]}; expected returned {[x.trs for x in sel]}'


@replay('c18_filter_dups')
def c18_filter_dups(n, t0, t1, t2, d0, d1, d2, p0, p1, p2, same, m, drop, kind):
    import pytrs
    from props.c18_ref import dup_expected, METHODS, DESCS, TR
    ts, ds, ps = [t0, t1, t2][:n], [d0, d1, d2][:n], [p0, p1, p2][:n]
    els = [pytrs.Tract(DESCS[ds[i]], trs=TR[ts[i]], parse_qq=ps[i]) if kind else pytrs.TRS(TR[ts[i]]) for i in range(n)]
    if same == 1 and n >= 2:
        els[1] = els[0]
    elif same == 2 and n >= 3:
        els[2] = els[0]
    elif same == 3 and n >= 3:
        els[2] = els[1]
    keys = {'trs': [e.trs for e in els]}
    if kind:
        keys['desc'] = [f'{e.trs}_{e.pp_desc.strip()}' for e in els]
        keys['lots_qqs'] = [(e.trs, tuple(sorted(set(e.lots_qqs)))) if e.parse_complete else None for e in els]
    else:
        keys['desc'] = [e.trs for e in els]
        keys['lots_qqs'] = [None for e in els]
    exp = dup_expected(kind, METHODS[m], els, keys)
    lst = (pytrs.TractList if kind else pytrs.TRSList)(els)
    out = lst.filter_duplicates(method=METHODS[m], drop=drop)
    sel = [e for e, x in zip(els, exp) if x]
    rest = [e for e, x in zip(els, exp) if not x]
    bad = [id(x) for x in out] != [id(x) for x in sel] or [id(x) for x in lst] != [id(x) for x in (rest if drop else els)]
    return bad, f'method={METHODS[m]} elements {[(e.trs, getattr(e, "desc", None)) for e in els]} same={same}: returned idx {[els.index(x) for x in out]}, expected flags {exp}'


@replay('c18_group')
def c18_group(nested, n, oi, a0, a1, a2, a3, b0, b1, b2, b3, c0, c1, c2, c3, aslist):
    import pytrs
    ORDERS = ((0,), (1,), (0, 1), (1, 0), (0, 1, 2), (2, 0, 1))
    ATTRS = ('twp_num', 'sec_num', 'rge_num')
    A, B, C = [a0, a1, a2, a3][:n], [b0, b1, b2, b3][:n], [c0, c1, c2, c3][:n]
    els = [pytrs.Tract('d%d' % i, trs=f'{A[i]}n{C[i]}w{B[i]:02d}') for i in range(n)]
    lst = pytrs.TractList(els)
    order = ORDERS[oi]
    attrs = [ATTRS[k] for k in order]
    arg = attrs if (aslist or len(attrs) > 1) else attrs[0]
    try:
        g = lst.group_by_nested(arg) if nested else lst.group_by(arg)
    except Exception as e:  # noqa
        return True, f'{"group_by_nested" if nested else "group_by"}({arg}) raised {e!r}'
    vals = {id(e): tuple((A[i], B[i], C[i])[k] for k in order) for i, e in enumerate(els)}
    seen = []
    ok = [True]

    def walk(d, prefix):
        for k, v in d.items():
            if isinstance(v, dict):
                walk(v, prefix + (k,))
            else:
                key = (prefix + (k,)) if nested else (k if isinstance(k, tuple) else (k,))
                for e in v:
                    if vals[id(e)] != tuple(key):
                        ok[0] = False
                    seen.append(id(e))
    walk(g, ())
    un = pytrs.TractList.unpack_group(g)
    bad = (not ok[0]) or sorted(seen) != sorted(id(e) for e in els) or sorted(id(e) for e in un) != sorted(id(e) for e in els)
    return bad, f'groups: {g}'


@replay('c18_construct')
def c18_construct(kinds, path, trslist):
    import pytrs
    items = []
    for i, kn in enumerate(kinds):
        items.append({'tract': lambda: pytrs.Tract('NE/4', trs='154n97w%02d' % (i + 1)),
                      'trs': lambda: pytrs.TRS('154n97w%02d' % (i + 1)), 'str': lambda: '154n97w%02d' % (i + 1),
                      'int': lambda: 7 + i, 'none': lambda: None,
                      'plssdesc': lambda: pytrs.PLSSDesc('T154N-R97W Sec %d: NE/4' % (i + 1))}[kn]())
    ok_kinds = ('tract', 'trs', 'str') if trslist else ('tract',)
    if path.startswith('from_multiple'):
        ok_kinds = ok_kinds + ('plssdesc',)
    all_ok = all(k in ok_kinds for k in kinds)
    base = pytrs.Tract('W/2', trs='1n1w01')
    expanded = []
    for it in items:
        if isinstance(it, pytrs.PLSSDesc):
            expanded.extend(list(it.tracts))
        else:
            expanded.append(it)
    cls = pytrs.TRSList if trslist else pytrs.TractList
    lst = cls([base])
    raised = None
    try:
        if path == 'ctor':
            lst = cls([base] + items)
        elif path == 'ctor_container':
            lst = cls(cls([base] + items))
        elif path == 'extend':
            lst.extend(items)
        elif path == 'iadd':
            lst += items
        elif path == 'add':
            lst = lst + items
        elif path == 'append':
            lst.append(items[0])
        elif path == 'insert':
            lst.insert(1, items[0])
        elif path == 'setitem':
            lst.append(base)
            lst[1] = items[0]
        elif path == 'from_multiple':
            lst = cls.from_multiple(base, *items)
        else:
            lst = cls.from_multiple([base], [items])
    except TypeError as e:
        raised = f'TypeError({e})'
    except BaseException as e:  # noqa
        return True, f'{cls.__name__} via {path} with {kinds} raised {type(e).__name__} (not TypeError)'
    if not all_ok:
        return raised is None, f'{cls.__name__} via {path} with element kinds {kinds}: raised={raised}, contents={[getattr(x, "trs", x) for x in lst]}'
    if raised:
        return True, f'acceptable elements rejected: {raised}'
    got = list(lst)
    bad = len(got) != 1 + len(expanded)
    for g, it in zip(got[1:], expanded):
        if trslist:
            if type(g) is not pytrs.TRS or g.trs != (it if isinstance(it, str) else it.trs):
                bad = True
        elif g is not it:
            bad = True
    return bad, f'contents={[(type(x).__name__, getattr(x, "trs", x)) for x in got]}'


# ------------------------------------------------------------------ C19
@replay('c19_export')
def c19_export(ci, atts, op, exists, append, nice):
    import csv
    import os
    import tempfile
    import pytrs
    from pytrs.tractwriter.tractwriter import TractWriter
    from props.c19_ref import CORPUS, cell, expected_value
    txt, pq = CORPUS[ci]
    d = pytrs.PLSSDesc(txt, parse_qq=pq)
    tl = d.tracts
    exp = [[expected_value(t, a) for a in atts] for t in tl]
    try:
        if op in ('tracts_to_csv', 'tractwriter'):
            tmp = tempfile.mkdtemp(prefix='c19_')
            fp = os.path.join(tmp, 'out.csv')
            pre = 0
            if exists:
                with open(fp, 'w', newline='') as f:
                    csv.writer(f).writerow(['old'])
                pre = 0 if not append else 1
            mode = 'a' if append else 'w'
            extra = None
            if nice >= 4:
                extra = ('plus', 'uid')[nice - 4] if op == 'tractwriter' else None
                nice = 0
            nice_val = (False, True, ['H%d' % i for i in range(len(atts))], {atts[0]: 'Custom'})[nice]
            try:
                if op == 'tracts_to_csv':
                    tl.tracts_to_csv(atts, fp, mode, nice_headers=nice_val)
                else:
                    w = TractWriter(list(atts), fp, mode, nice_headers=nice_val, plus_cols=['Report Date'] if extra == 'plus' else None,
                                    uid=1 if extra == 'uid' else None)
                    w.write(tl, plus_cols=['2020-01-01'] if extra == 'plus' else None)
                    w.close()
                with open(fp, newline='') as f:
                    rows = list(csv.reader(f))
            finally:
                try:
                    os.remove(fp)
                except OSError:
                    pass
                os.rmdir(tmp)
            rows = rows[pre:]
            if not (exists and append):
                rows = rows[1:]
            want = [[str(cell(v)) for v in e] for e in exp]
            if extra is not None:
                if any(len(r) != len(atts) + 1 for r in rows):
                    return True, f'rows read back {rows}: expected {len(atts)} attribute cells and one additional cell per row'
                rows = [r[:-1] for r in rows]
            return rows != want, f'rows read back {rows} expected {want}'
        if op == 'to_dict':
            recs = [[t.to_dict(*atts)[a] for a in atts] for t in tl]
        elif op == 'to_list':
            recs = [t.to_list(atts) for t in tl]
        elif op in ('tracts_to_dict', 'iter_to_dict'):
            recs = [[r[a] for a in atts] for r in (tl.tracts_to_dict(atts) if op == 'tracts_to_dict' else tl.iter_to_dict(*atts))]
        elif op in ('tracts_to_list', 'iter_to_list'):
            recs = [list(r) for r in (tl.tracts_to_list(*atts) if op == 'tracts_to_list' else tl.iter_to_list(atts))]
        else:
            recs = [[r[a] for a in atts] for r in d.tracts_to_dict(*atts)]
            if [list(r) for r in d.tracts_to_list(atts)] != exp:
                return True, 'PLSSDesc.tracts_to_list differs'
        return recs != exp, f'records {recs} expected {exp}'
    except Exception as e:  # noqa
        return True, f'{op}({atts}) raised {type(e).__name__}: {e}'


# ------------------------------------------------------------------ C13
@replay('c13_roundtrip')
def c13_roundtrip(d):
    import pytrs
    try:
        cf = pytrs.Config.from_dict(d)
        txt = cf.decompile_to_text()
        back = pytrs.Config(txt)
    except Exception as e:  # noqa
        return True, f'raised {e!r}'
    diffs = {}
    for att in pytrs.Config._CONFIG_ATTRIBUTES:
        want = d.get(att)
        if att in ('default_ns', 'default_ew') and want is not None:
            want = want.lower()
        if getattr(back, att) != want or type(getattr(back, att)) is not type(want):
            diffs[att] = (getattr(back, att), want)
    return bool(diffs), f'text {txt!r}; diffs (observed, expected): {diffs}'


@replay('c13_unknown')
def c13_unknown(txt):
    import pytrs
    try:
        pytrs.Config(txt)
    except ValueError as e:
        return False, f'ValueError: {e}'
    return True, f'Config({txt!r}) accepted'


@replay('c13_plss')
def c13_plss(group, c, k, channel):
    import pytrs
    from props.c13_ref import TEXTS, PLSS_TEXTS, cfg_text, snapshot_desc
    eff = {n: (k[n] if n in k else c[n]) for n in c}
    if ('qq_depth' in k or 'qq_depth_min' in k or 'qq_depth_max' in k) and 'qq_depth' not in k and 'qq_depth' in eff:
        eff['qq_depth'] = None
    out = []
    for tk in PLSS_TEXTS[group]:
        text = TEXTS[tk]
        ref = pytrs.PLSSDesc(text, config=cfg_text(eff))
        if channel:
            d = pytrs.PLSSDesc(text, config=cfg_text(c))
        else:
            d = pytrs.PLSSDesc(text, wait_to_parse=True)
            d.config = cfg_text(c)
        d.parse(**k)
        if snapshot_desc(d) != snapshot_desc(ref):
            out.append((text, snapshot_desc(d), snapshot_desc(ref)))
    return bool(out), f'config {cfg_text(c)!r} + parse(**{k}) vs config {cfg_text(eff)!r}: ' + '; '.join(
        f'{t!r}: got {a} expected {b}' for t, a, b in out)[:1200]


@replay('c13_config_only')
def c13_config_only(w, s, kw, channel):
    import pytrs
    from props.c13_ref import TEXTS, cfg_text
    text = TEXTS['qq']
    c = {'wait_to_parse': w, 'suppress_lot_divs': s, 'parse_qq': True}
    if channel:
        d = pytrs.PLSSDesc(text, config=cfg_text(c)) if kw is None else pytrs.PLSSDesc(text, config=cfg_text(c), wait_to_parse=kw)
    else:
        d = pytrs.PLSSDesc(text, wait_to_parse=True)
        d.config = cfg_text(c)
        if not (w if kw is None else kw):
            d.parse()
    waits = bool(w) if kw is None else bool(kw)
    if waits:
        return len(d.tracts) != 0, f'config {cfg_text(c)!r}, init wait_to_parse={kw}: {len(d.tracts)} tracts although waiting was requested'
    lots = d.tracts[0].lots if len(d.tracts) == 1 else None
    return lots != (['L1'] if s else ['N2 of L1']), f'config {cfg_text(c)!r}: lots {lots}'


@replay('c13_tract')
def c13_tract(c, k, channel):
    import pytrs
    from props.c13_ref import cfg_text, snapshot_tract
    desc = 'S/2N/2NE/4, NW, N/2 of Lot 1, Lot 2(40.1)'
    eff = {n: (k[n] if n in k else c[n]) for n in c}
    if ('qq_depth_min' in k or 'qq_depth_max' in k) and 'qq_depth' not in k and 'qq_depth' in eff:
        eff['qq_depth'] = None
    ref = pytrs.Tract(desc, trs='154n97w14', config=cfg_text(eff), parse_qq=True)
    if channel:
        t = pytrs.Tract(desc, trs='154n97w14', config=cfg_text(c))
    else:
        t = pytrs.Tract(desc, trs='154n97w14')
        t.config = cfg_text(c)
    t.parse(**k)
    return snapshot_tract(t) != snapshot_tract(ref), f'got {snapshot_tract(t)} expected {snapshot_tract(ref)}'


# ------------------------------------------------------------------ C14
@replay('c14_desc')
def c14_desc(cfg, ops):
    import pytrs
    from props.c14_ref import TEXT, snap_desc, apply_desc, commits, reference_desc
    make = lambda: pytrs.PLSSDesc(TEXT, config=cfg)
    d = make()
    hist = []
    for op in ops:
        op = tuple(op)
        before = snap_desc(d)
        apply_desc(d, op)
        hist.append(op)
        if not commits(op) and snap_desc(d) != before:
            return True, f'operation {op} with commit=False changed the object'
    a, b = snap_desc(d), snap_desc(reference_desc(make, hist))
    if a == b:
        return False, 'equivalent'
    diff = [(i, x, y) for i, (x, y) in enumerate(zip(a, b)) if x != y]
    return True, f'after {hist}: differs from reference at fields {[i for i, _, _ in diff]}: {str(diff)[:900]}'


@replay('c14_tract')
def c14_tract(cfg, ops):
    import pytrs
    from props.c14_ref import DESC, snap_tract, apply_tract, tract_commits, reference_tract
    make = lambda: pytrs.Tract(DESC, trs='154n97w14', config=cfg)
    t = make()
    hist = []
    for op in ops:
        op = tuple(op)
        before = snap_tract(t)
        apply_tract(t, op)
        hist.append(op)
        if not tract_commits(op) and snap_tract(t) != before:
            return True, f'operation {op} with commit=False changed the object'
    a, b = snap_tract(t), snap_tract(reference_tract(make, hist))
    if a == b:
        return False, 'equivalent'
    diff = [(i, x, y) for i, (x, y) in enumerate(zip(a, b)) if x != y]
    return True, f'after {hist}: differs from reference: {str(diff)[:900]}'


# ------------------------------------------------------------------ C15
@replay('c15_history')
def c15_history(ops, pi=None):
    from props.c15_ref import observe, apply_op, OPS, N_PROBES
    from props.c15_ref import expected_defaults
    base = {p: observe(p) for p in range(N_PROBES)}           # fresh interpreter, empty history
    base[N_PROBES - 1] = expected_defaults()                  # the defaults probe is held against the specification
    for name in ops:
        if name in ('mutate_exports', 'parse_same_under_other_defaults'):
            for p in range(N_PROBES):
                apply_op(OPS.index(name), p)
        else:
            apply_op(OPS.index(name), 0)
    diffs = []
    for p in range(N_PROBES):
        got = observe(p)
        if got != base[p]:
            diffs.append((p, [(i, x, y) for i, (x, y) in enumerate(zip(got, base[p])) if x != y][:2]))
    return bool(diffs), f'after {ops}: probes that differ from the fresh-interpreter baseline: {str(diffs)[:900]}'


# ------------------------------------------------------------------ C02
@replay('c02_tiling')
def c02_tiling(chain, dmin, dmax, qd, bh):
    import warnings
    import pytrs
    from spec import aliquot_spec as A
    text = A.canonical_text(chain)
    cfg = [f'qq_depth_min.{dmin}']
    if dmax is not None:
        cfg.append(f'qq_depth_max.{dmax}')
    if qd is not None:
        cfg.append(f'qq_depth.{qd}')
    if bh:
        cfg.append('break_halves')
    with warnings.catch_warnings():
        warnings.simplefilter('ignore')
        t = pytrs.Tract(text, parse_qq=True, config=','.join(cfg))
    if qd is not None:
        dmin = dmax = qd
    pieces = t.qqs
    why = A.check_tiling(chain, list(pieces), dmin, dmax, bh)
    return why is not None, f'{text!r} config {cfg}: pieces {pieces}: {why}'


# ------------------------------------------------------------------ C16
@replay('c16_time')
def c16_time(text, config):
    from props.c16_ref import timed_parse, THRESHOLD, MAXLEN
    times = []
    for _ in range(2):
        dt = timed_parse(text, config, timeout=10.0)
        times.append(dt)
        if dt is not None and dt <= THRESHOLD:
            return False, f'{len(text)} chars parsed in {dt:.2f} s'
    shown = ['>10' if t is None else round(t, 2) for t in times]
    return len(text) <= MAXLEN + 60, f'{len(text)}-character description {text[:80]!r}... took {shown} s (threshold {THRESHOLD} s)'


# ------------------------------------------------------------------ C03
@replay('c03_plss')
def c03_plss(text, config):
    import pytrs
    try:
        d = pytrs.PLSSDesc(text, config=config)
        d2 = pytrs.PLSSDesc(text, config=config, parse_qq=True)
    except Exception as e:  # noqa
        return True, f'PLSSDesc({text!r}, config={config!r}) raised {type(e).__name__}: {e}'
    return len(d.tracts) < 1 or len(d2.tracts) < 1, f'{len(d.tracts)} tracts'


@replay('c03_tract')
def c03_tract(text, config):
    import pytrs
    try:
        t = pytrs.Tract(text, trs='154n97w14', config=config, parse_qq=True)
        t.parse()
        t.preprocess(commit=True)
        t.ilots
    except Exception as e:  # noqa
        return True, f'Tract({text!r}, config={config!r}) raised {type(e).__name__}: {e}'
    return False, f'lots {t.lots} qqs {t.qqs}'


@replay('c03_badarg')
def c03_badarg(i):
    # mirrors props/c03.py:call_bad without importing z3/CrossHair
    import importlib.util
    import os
    src = open(os.path.join(os.path.dirname(__file__), 'c03.py')).read()
    ns = {}
    start = src.index('BAD_ARGS = (')
    end = src.index('def ob_args(ob):')
    exec(src[start:end], ns)
    why = ns['call_bad'](i)
    return why is not None, f'{ns["BAD_ARGS"][i][:3]}: {why}'


# ------------------------------------------------------------------ C10
@replay('c10_trigger')
def c10_trigger(text, flag, phrase):
    import pytrs
    d = pytrs.PLSSDesc('T154N-R97W Sec 14: NE/4 ' + text)
    hit = [(f, c) for f, c in d.w_flag_lines if f == flag]
    ok = flag in d.w_flags and any(phrase.lower() in c.lower() or phrase.lower().split()[0] in c.lower() for f, c in hit)
    return not ok, f'w_flags {d.w_flags} lines {d.w_flag_lines}'


@replay('c10_cluster')
def c10_cluster(text, flag, words):
    import pytrs
    out = []
    for full in ('T154N-R97W Sec 14: ' + text, text + ' in Section 14, T154N-R97W'):     # trigger late / early in the chunk
        d = pytrs.PLSSDesc(full)
        lines = [c for f, c in d.w_flag_lines if f == flag]
        missing = [w for w in words if not any(w in c for c in lines)]
        if missing:
            out.append(f'{full!r}: trigger words {missing} are in no {flag!r} flag context; flag lines {d.w_flag_lines}')
    return bool(out), ' || '.join(out) or 'every trigger word is inside a flag context'


@replay('c10_flags')
def c10_flags(text, config):
    import pytrs
    from props.c10_ref import flags_shape, contains_all
    d = pytrs.PLSSDesc(text, config=config)
    for name, obj in [('description', d)] + [(f'tract {i}', t) for i, t in enumerate(d.tracts)]:
        why = flags_shape(obj)
        if why:
            return True, f'{name}: {why}'
    for i, t in enumerate(d.tracts):
        for attr in ('w_flags', 'e_flags', 'w_flag_lines', 'e_flag_lines'):
            if not contains_all(getattr(t, attr), getattr(d, attr)):
                return True, f'tract {i} lacks some of the description\'s {attr}: {getattr(t, attr)} vs {getattr(d, attr)}'
    if any(t.trs_is_error() for t in d.tracts) and not (d.e_flags and d.desc_is_flawed):
        return True, 'error Twp/Rge/Sec without an error flag'
    if bool(d.e_flags) != bool(d.desc_is_flawed):
        return True, 'desc_is_flawed disagrees with e_flags'
    low = text.lower() if 'segment' not in (config or '') else ''
    for word, flag in (('wellbore', 'well'), ('less and except', 'less_except')):
        if word in low and not any(f == flag and word in c.lower() for f, c in d.w_flag_lines):
            return True, f'{word!r} present but no {flag!r} flag line contains it: {d.w_flag_lines}'
    return False, f'flags ok: {d.w_flags} {d.e_flags}'


# ------------------------------------------------------------------ C09
@replay('c09_tracts')
def c09_tracts(text, config):
    import pytrs
    from spec import trs_spec as SP
    d = pytrs.PLSSDesc(text, config=config, source='SRC')
    for i, t in enumerate(d.tracts):
        trs = t.trs
        if not SP.is_standard(trs):
            return True, f'tract {i} has Twp/Rge/Sec {trs!r}, not in the standard form'
        dd = SP.decompose(trs)
        if dd['twp_undef'] or dd['rge_undef'] or dd['sec_undef']:
            return True, f'tract {i} has the undefined placeholder: {trs!r}'
        for a in ('twp', 'rge', 'sec', 'twp_num', 'twp_ns', 'rge_num', 'rge_ew', 'sec_num', 'twprge'):
            if getattr(t, a) != dd[a]:
                return True, f'tract {i} ({trs!r}).{a} = {getattr(t, a)!r}, expected {dd[a]!r}'
        if t.orig_index != i or t.orig_desc != text or t.source != 'SRC':
            return True, f'tract {i}: orig_index={t.orig_index}, source={t.source!r}, orig_desc ok={t.orig_desc == text}'
    return False, f'{[t.trs for t in d.tracts]}'


@replay('c09_props')
def c09_props(s):
    import pytrs
    from spec import trs_spec as SP
    t = pytrs.Tract('NE/4', trs=s)
    d = SP.decompose(s)
    diffs = {k: (getattr(t, k), d[k]) for k in ('trs', 'twp', 'rge', 'sec', 'twp_num', 'twp_ns', 'rge_num', 'rge_ew', 'sec_num', 'twprge') if getattr(t, k) != d[k]}
    return bool(diffs), f'Tract(trs={s!r}): {diffs}'


# ------------------------------------------------------------------ C04
@replay('c04_words')
def c04_words(text, config, cls):
    import pytrs
    from collections import Counter
    from props.c04_ref import words_of, CULL
    from pytrs.parser.rgxlib import twprge_regex, multisec_regex
    d = pytrs.PLSSDesc(text, config=config)
    pp = d.pp_desc
    rec = []
    for rgx in (twprge_regex, multisec_regex):
        rec += [m.span() for m in rgx.finditer(pp)]
    outside = Counter(w for w, a, b in words_of(pp) if not any(a >= s and b <= e for s, e in rec))
    sinks = [t.desc for t in d.tracts] + [c for f, c in d.e_flag_lines if f.startswith('unused_desc')]
    inside = Counter()
    for s_ in sinks:
        rec_s = []
        for rgx in (twprge_regex, multisec_regex):
            rec_s += [m.span() for m in rgx.finditer(s_)]
        inside.update(w for w, a, b in words_of(s_) if not any(a >= s and b <= e for s, e in rec_s))
    missing = [w for w, n in outside.items() if inside[w] < n]
    if cls == 'cull-word':
        missing = [w for w in missing if w.lower() in CULL]
    return bool(missing), (f'{text!r} config={config!r}: words {missing} occur more often in the text than in the tract descriptions '
                           f'{[t.desc for t in d.tracts]} and unused_desc flags {d.e_flags}')


@replay('c04_pp')
def c04_pp(text, with_pm):
    import pytrs
    from props.c04_ref import words_of
    d = pytrs.PLSSDesc(text + '\nSec 14: NE/4')
    pp = d.pp_desc
    import re
    tail = text
    m = re.search(r'[a-z][a-z ]*[a-z]|[a-z]', text.split('\n')[-1] if False else text)
    # the prose word(s) are the lower-case run after the Twp/Rge
    prose = re.findall(r'(?<![A-Za-z])[a-z]+(?![A-Za-z])', text)
    lost = [w for w in prose if w not in pp]
    return bool(lost), f'pp_desc {pp!r}: prose words {lost} of {text!r} were deleted by preprocessing'


# ------------------------------------------------------------------ C11
@replay('c11_handover')
def c11_handover(text, channel, extra):
    import pytrs
    if channel == 'init_kw':
        d = pytrs.PLSSDesc(text, layout='copy_all', config=extra)
        tracts = d.tracts
    elif channel == 'config':
        d = pytrs.PLSSDesc(text, config=(extra + ',copy_all').strip(','))
        tracts = d.tracts
    elif channel == 'assign':
        d = pytrs.PLSSDesc(text, config=extra, wait_to_parse=True)
        d.config = 'copy_all'
        d.parse()
        tracts = d.tracts
    elif channel == 'parse_commit':
        d = pytrs.PLSSDesc(text, config=extra)
        d.parse(layout='copy_all')
        tracts = d.tracts
    else:
        d = pytrs.PLSSDesc(text, config=extra)
        tracts = d.parse(layout='copy_all', commit=False)
    pp = d.preprocess()
    bad = len(tracts) != 1 or str(tracts[0].desc) != pp
    return bad, f'{len(tracts)} tracts: {[(t.trs, t.desc) for t in tracts]} (preprocessed text {pp!r})'


@replay('c11_fallback')
def c11_fallback(text, config, has_tr, has_sec):
    import pytrs
    from props.c11_ref import whole
    d = pytrs.PLSSDesc(text, config=config)
    pp = d.pp_desc
    n_whole = sum(1 for t in d.tracts if whole(t.desc, pp) and t.desc)
    if n_whole > 1:
        return True, f'two tracts carry the complete text: {[(t.trs, t.desc) for t in d.tracts]}'
    forced = config == 'copy_all'
    forced_other = config in ('TRS_desc', 'desc_STR', 'S_desc_TR', 'TR_desc_S')
    if forced or ((not has_tr or not has_sec) and not forced_other):
        if len(d.tracts) != 1 or d.tracts[0].desc != pp:
            return True, f'expected one tract with the whole preprocessed text {pp!r}, got {[(t.trs, t.desc) for t in d.tracts]}'
        if not forced and not d.e_flags:
            return True, 'fallback without an error flag'
    return False, f'{[(t.trs, t.desc) for t in d.tracts]} e_flags={d.e_flags}'


# ------------------------------------------------------------------ C20
@replay('c20_modes')
def c20_modes(text, expected, what):
    import pytrs
    from props.c11_ref import whole
    exp = [tuple(x) for x in expected]
    run = lambda cfg: pytrs.PLSSDesc(text, config=cfg)
    obs = lambda d: [(t.trs, t.desc) for t in d.tracts]
    base = run('')
    if obs(base) != exp:
        return True, f'default parse gives {obs(base)}, expected {exp}'
    if what == 'segment':
        d = run('segment')
        return obs(d) != exp, f'segment: {obs(d)} vs {exp}'
    req, cau = run('sec_colon_required'), run('sec_colon_cautious')
    if what == 'colon_all':
        return obs(req) != exp or obs(cau) != exp, f'required {obs(req)} cautious {obs(cau)} expected {exp}'
    bad = obs(cau) != exp or not any(f.startswith('pulled_sec_without_colon') for f in cau.w_flags) or \
        not (len(req.tracts) == 1 and whole(req.tracts[0].desc, req.pp_desc))
    return bad, f'cautious {obs(cau)} {cau.w_flags}; required {obs(req)}'


@replay('c20_within')
def c20_within(text, trs, lead, trail):
    import pytrs
    d = pytrs.PLSSDesc(text, config='sec_within')
    tracts = [(t.trs, t.desc) for t in d.tracts]
    if [t[0] for t in tracts] != trs:
        return True, f'tracts {tracts}, expected sections {trs}'
    lw = [w for w in lead.replace(',', ' ').split() if w.lower() != 'of']
    tw = trail.replace(',', ' ').split()
    for t, desc in tracts:
        pos = -1
        for w in lw + tw:
            i = desc.find(w, pos + 1)
            if i < 0:
                return True, f'description {desc!r} lacks {w!r} in order'
            pos = i
    return not any(f.startswith('sec_within') for f in d.w_flags), f'{tracts} w_flags={d.w_flags}'


@replay('c20_colon_group')
def c20_colon_group(text):
    import pytrs
    stripped = text
    has_colon = ':' in text
    a = pytrs.PLSSDesc('T154N-R97W ' + text + ' NE/4', config='sec_colon_required')
    picked = len(a.tracts) >= 1 and not any(t.desc.startswith('T154N') for t in a.tracts)
    return picked != has_colon, f'{text!r}: colon present={has_colon}, section accepted under sec_colon_required={picked}: {[(t.trs, t.desc) for t in a.tracts]}'


# ------------------------------------------------------------------ C05
def _c05_parse_list(text):
    """independent reading of a rendered list: numbers and the connectives between them"""
    import re
    nums = [int(x) for x in re.findall(r'\d+', text)]
    parts = re.split(r'\d+', text)[1:-1]
    thru = []
    for p in parts:
        q = re.sub(r'(Sections|Section|Secs\.?|Sec\.?|Sect\.|Lots|Lot|Lts\.?|Lt\.?|L\.?|§+)\s*', '', p, flags=re.I)
        thru.append(bool(re.search(r'-|–|—|through|thru|\bto\b', q, re.I)))
    return nums, thru


@replay('c05_list_text')
def c05_list_text(text, kind):
    import pytrs
    nums, thru = _c05_parse_list(text)
    out = [nums[0]]
    desc = False
    for n, t in zip(nums[1:], thru):
        if t:
            a = out[-1]
            step = 1 if n >= a else -1
            desc = desc or n < a
            out += list(range(a + step, n + step, step))
        else:
            out.append(n)
    if kind == 'sec':
        got = pytrs.find_sec(text)
        want = [str(x).rjust(2, '0') for x in out]
        return got != want, f'find_sec({text!r}) = {got}, denoted {want}'
    t = pytrs.Tract(text, parse_qq=True)
    return t.ilots != out, f'Tract({text!r}).ilots = {t.ilots}, denoted {out}'


@replay('c05_api')
def c05_api(text, kind, nums, seps):
    import os
    src = open(os.path.join(os.path.dirname(__file__), 'c05.py')).read()
    ns = {}
    exec(src[src.index('THRU = ['):src.index('def _list_template')], ns)
    exec(src[src.index('def denoted(nums, seps):'):src.index('def ob_s_loops(ob):')], ns)
    exec(src[src.index('def api_verdict(text, kind, nums, seps):'):src.index('def obligations(tier):')], ns)
    why = ns['api_verdict'](text, kind, nums, seps)
    return why is not None, f'{text!r}: {why}'


# ------------------------------------------------------------------ C08
@replay('c08_spelling')
def c08_spelling(text, spelled, n, m, D, E):
    import pytrs
    if D is None or E is None:
        got = pytrs.find_twprge(text, default_ns='n', default_ew='w', preprocess=True)
        canon = f'T{int(n)}{(D or "N")[0].upper()}-R{int(m)}{(E or "W")[0].upper()}'
    else:
        got = pytrs.find_twprge(text, preprocess=True)
        canon = f'T{int(n)}{D[0].upper()}-R{int(m)}{E[0].upper()}'
    pp = pytrs.PLSSDesc(text + '\nSec 14: NE/4').pp_desc
    return canon not in got or canon not in pp, f'{text!r}: find_twprge {got}, pp_desc {pp!r}, expected {canon}'


@replay('c08_api')
def c08_api(text, default_ns, default_ew, expect, ocr=False):
    import pytrs
    got = pytrs.find_twprge(text, default_ns=default_ns, default_ew=default_ew, preprocess=True, ocr_scrub=ocr)
    d = pytrs.PLSSDesc(text, config=','.join(x for x in (default_ns, default_ew, 'ocr_scrub' if ocr else None) if x))
    return got != [expect] or expect not in d.pp_desc, f'{text!r}: find_twprge {got}, pp_desc {d.pp_desc!r}, expected {expect}'


@replay('c08_defaults')
def c08_defaults(text, cns, cew, kns, kew, mns, mew, how):
    import os
    import pytrs
    src = open(os.path.join(os.path.dirname(__file__), 'c08.py')).read()
    ns = {}
    exec(src[src.index('def defaults_verdict('):src.index('# ------------------------------------------------------------------ S: rendered spellings')], ns)
    MC = pytrs.MasterConfig
    save = (MC.default_ns, MC.default_ew)
    MC.default_ns, MC.default_ew = mns, mew
    try:
        why = ns['defaults_verdict'](text, cns, cew, kns, kew, how)
    finally:
        MC.default_ns, MC.default_ew = save
    return why is not None, f'{why}'


# ------------------------------------------------------------------ C07
@replay('c07_text')
def c07_text(text, expect_in_pp, clean_qq):
    import pytrs
    t = pytrs.Tract(text, parse_qq=True, config='clean_qq' if clean_qq else '')
    again = pytrs.Tract(t.pp_desc, parse_qq=True, config='clean_qq' if clean_qq else '')
    bad = (expect_in_pp is not None and expect_in_pp not in t.pp_desc) or again.pp_desc != t.pp_desc
    return bad, f'Tract({text!r}).pp_desc = {t.pp_desc!r} (expected to contain {expect_in_pp!r}); second pass {again.pp_desc!r}'


@replay('c07_chain')
def c07_chain(text, chain, cfg):
    import pytrs
    from spec import aliquot_spellings as A
    canon = ''.join(A.canonical(c) for c in chain)
    t = pytrs.Tract(text, parse_qq=True, config=cfg)
    ref = pytrs.Tract(canon, parse_qq=True, config=cfg)
    again = pytrs.Tract(t.pp_desc, parse_qq=True, config=cfg)
    bad = canon not in t.pp_desc or t.qqs != ref.qqs or again.pp_desc != t.pp_desc
    return bad, f'Tract({text!r}, config={cfg!r}): pp_desc {t.pp_desc!r} qqs {t.qqs}; canonical {canon!r} qqs {ref.qqs}'


@replay('c07_bare')
def c07_bare(text, clean, expect, q):
    import pytrs
    t = pytrs.Tract(text, parse_qq=True, config='clean_qq' if clean else '')
    return ((q + '¼') in t.pp_desc) != expect, f'Tract({text!r}, clean_qq={clean}).pp_desc = {t.pp_desc!r}'


# ------------------------------------------------------------------ C06
@replay('c06_api')
def c06_api(idx, seps, cfg):
    from props.c06_ref import verdict
    v = verdict(idx, seps, cfg)
    return v is not None, f'{v}'


@replay('c06_text')
def c06_text(text):
    import pytrs
    t = pytrs.Tract(text, parse_qq=True)
    parts = [p for p in text.replace(';;', '').replace(';', ',').split(',') if p.strip()]
    exp_l, exp_q = [], []
    for p in parts:
        s = pytrs.Tract(p.strip(), parse_qq=True)
        exp_l += s.lots
        exp_q += s.qqs
    return t.lots != exp_l or t.qqs != exp_q, f'Tract({text!r}): lots {t.lots} qqs {t.qqs}; element-wise {exp_l} {exp_q}'


# ------------------------------------------------------------------ C01
@replay('c01_text')
def c01_text(text, expected, layout):
    import pytrs
    d = pytrs.PLSSDesc(text)
    got = [(t.trs, t.desc) for t in d.tracts]
    exp = [tuple(e) for e in expected]
    if got != exp or d.e_flags or d.current_layout != layout:
        return True, f'{text!r}: tracts {got} (expected {exp}), layout {d.current_layout} (written {layout}), e_flags {d.e_flags}'
    d2 = pytrs.PLSSDesc(d.pretty_desc())
    got2 = [(t.trs, t.desc) for t in d2.tracts]
    return got2 != got, f'pretty_desc round trip: {got2} vs {got}'


@replay('c01_sections')
def c01_sections(text):
    import re
    import pytrs
    m = re.search(r'(?:Sec(?:tion)?s?\.?|§)\s*(\d+)(?:(\s*-\s*|\s+through\s+)(\d+)|(?:,\s*|\s+and\s+|\s*&\s*)(\d+))?\s*:?', text)
    nums = []
    if m:
        a = int(m.group(1))
        if m.group(3):
            b = int(m.group(3))
            step = 1 if b >= a else -1
            nums = list(range(a, b + step, step))
        elif m.group(4):
            nums = [a, int(m.group(4))]
        else:
            nums = [a]
    want = [str(x).rjust(2, '0') for x in nums]
    got = pytrs.find_sec(text)
    return got != want, f'find_sec({text!r}) = {got}, written sections {want}'
