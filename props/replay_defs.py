"""replay_defs.py -- one function per replay kind.  Each takes the JSON args of a candidate violation, exercises
the *public* pyTRS API only, and returns (violated: bool, observed: str).  No z3 / CrossHair imports here."""
import json

REPLAYS = {}


def replay(kind):
    def deco(fn):
        REPLAYS[kind] = fn
        return fn
    return deco


# ------------------------------------------------------------------ C12
@replay('c12_strict')
def c12_strict(s):
    import pytrs
    from spec import trs_spec as SP
    t = pytrs.TRS(s)
    d = pytrs.trs_to_dict(s)
    std = SP.is_standard(s) or SP.is_standard(s.lower())
    no_error = (t.twp_num is not None or t.twp_undef) and (t.rge_num is not None or t.rge_undef) and \
               (t.sec_num is not None or t.sec_undef)
    bad = (not std) and s != '' and no_error
    return bad, f'TRS({s!r}).trs = {t.trs!r}; trs_to_dict -> {d["trs"]!r}; standard form: {std}'


@replay('c12_roundtrip')
def c12_roundtrip(s):
    import pytrs
    from spec import trs_spec as SP
    if not SP.is_standard(s):
        # strings with an absent section: expected error section, other components kept
        t = pytrs.TRS(s)
        return t.trs != s + SP.ERR_SEC, f'TRS({s!r}).trs = {t.trs!r}'
    d = SP.decompose(s)
    t = pytrs.TRS(s)
    diffs = {a: (getattr(t, a), d[a]) for a in d if getattr(t, a) != d[a]}
    return bool(diffs), f'TRS({s!r}): observed vs expected {diffs}'


@replay('c12_construct')
def c12_construct(tk, tn, tl, rk, rn, rl, sk, sn, dns, dew, mns, mew):
    import pytrs
    from spec import trs_spec as SP
    MC = pytrs.MasterConfig
    save = (MC.default_ns, MC.default_ew)
    MC.default_ns, MC.default_ew = mns, mew
    try:
        twp = SP.render_tr_input(tk, tn, tl)
        rge = SP.render_tr_input(rk, rn, rl)
        sec = SP.render_sec_input(sk, sn)
        exp = (SP.expect_tr(tk, tn, tl, dns, mns, SP.ERR_TWP, SP.UNDEF_TWP)
               + SP.expect_tr(rk, rn, rl, dew, mew, SP.ERR_RGE, SP.UNDEF_RGE) + SP.expect_sec(sk, sn))
        try:
            got = pytrs.TRS.construct_trs(twp, rge, sec, dns, dew)
            t = pytrs.TRS.from_twprgesec(twp, rge, sec, dns, dew)
        except Exception as e:  # noqa
            return True, f'construct_trs({twp!r},{rge!r},{sec!r},{dns!r},{dew!r}) raised {e!r}'
        d = SP.decompose(exp)
        diffs = {a: (getattr(t, a), d[a]) for a in d if getattr(t, a) != d[a]}
        t2 = pytrs.TRS(t.trs)
        eq = (t2 == t and hash(t2) == hash(t))
        bad = got != exp or bool(diffs) or not eq
        return bad, (f'construct_trs({twp!r},{rge!r},{sec!r},{dns!r},{dew!r}) [MasterConfig {mns},{mew}] = {got!r}, '
                     f'expected {exp!r}; from_twprgesec(...) attribute diffs (observed, expected): {diffs}; eq/hash ok: {eq}')
    finally:
        MC.default_ns, MC.default_ew = save
