"""C10 shared pieces (no z3/CrossHair imports)"""


def flags_shape(obj):
    for fname, lname in (('w_flags', 'w_flag_lines'), ('e_flags', 'e_flag_lines')):
        fl, ln = getattr(obj, fname), getattr(obj, lname)
        if not isinstance(fl, list) or not isinstance(ln, list):
            return f'{fname}/{lname} is not a list'
        if len(fl) != len(ln):
            return f'{fname} has {len(fl)} entries but {lname} has {len(ln)}'
        for f, l in zip(fl, ln):
            if not isinstance(f, str):
                return f'{fname} contains a {type(f).__name__}: {f!r}'
            if not (isinstance(l, tuple) and len(l) == 2 and isinstance(l[0], str) and isinstance(l[1], str)):
                return f'{lname} contains {l!r} (not a 2-tuple of str)'
            if l[0] != f:
                return f'{lname} entry {l!r} is not paired with flag {f!r}'
    return None


def contains_all(big, small):
    big = list(big)
    for x in small:
        if x in big:
            big.remove(x)
        else:
            return False
    return True
