"""C15 -- results depend only on text and settings, not on what ran before."""
from engine.framework import Ob, result, violation, from_explore

PROPERTY = 'C15'
LEVEL = 'other'
FILES = ['pytrs/parser/trs/trs.py', 'pytrs/parser/config/master_config.py', 'pytrs/parser/tract/tract.py',
         'pytrs/parser/plssdesc/plss_preprocess.py', 'pytrs/parser/plssdesc/plss_parse.py']
ASSUMPTIONS = [
    'probes: 8 Twp/Rge/Sec strings (valid, upper case, error, undefined, near-miss, empty), 2 tract descriptions, 4 PLSS '
    'descriptions (incl. missing directions, which depend on MasterConfig); prior activity is a symbolic sequence over 9 '
    'operation kinds (other parses, MasterConfig changed and restored, cache cleared / off / on / pre-warmed, returned '
    'dicts and lists mutated, the same probe parsed under other defaults)',
    'baseline = the probe evaluated first in the same worker process with an empty history; "fresh interpreter" is used '
    'only by the replay of a counterexample',
]
EXPLANATION = ('CrossHair executes the real library through symbolic sequences of prior operations followed by a probe and '
               'compares the probe observables with the empty-history baseline; the path tree over (sequence, probe) is '
               'exhausted.')


def ob_history(ob):
    from engine.xh import explore, choose, NoTracing
    from props.c15_ref import observe, apply_op, OPS, N_PROBES
    import pytrs
    nops = ob.params['nops']
    probes = ob.params.get('probes', range(N_PROBES))
    with NoTracing():
        pytrs.TRS._clear_cache()
        pytrs.TRS._USE_CACHE = True
        base = {pi: observe(pi) for pi in probes}

    fixed_first = ob.params.get('first')

    def run(pi, ops):
        pi = choose(pi, probes)
        save = (pytrs.TRS._USE_CACHE, pytrs.MasterConfig.default_ns, pytrs.MasterConfig.default_ew)
        try:
            for j, o in enumerate(ops):
                apply_op(fixed_first if (j == 0 and fixed_first is not None) else choose(o, range(len(OPS))), pi)
            if (pytrs.MasterConfig.default_ns, pytrs.MasterConfig.default_ew) != save[1:]:
                return False
            return observe(pi) == base[pi]
        finally:
            pytrs.TRS._USE_CACHE, pytrs.MasterConfig.default_ns, pytrs.MasterConfig.default_ew = save

    if nops == 1:
        def target(pi: int, o0: int):
            return run(pi, [o0])
    elif nops == 2:
        def target(pi: int, o0: int, o1: int):
            return run(pi, [o0, o1])
    else:
        def target(pi: int, o0: int, o1: int, o2: int):
            return run(pi, [o0, o1, o2])
    st = explore(target, timeout=ob.params.get('cap', 900), max_viol=2)
    info = dict(bound=f'histories of {nops} prior operations over {len(OPS)} kinds x {len(list(probes))} probes',
                samples=[{'ops': list(OPS)}])

    def cl(x, n):
        return x if 0 <= x < n - 1 else n - 1

    def mk(vs):
        out = {}
        pl = list(probes)
        for v in vs:
            a = v['args']
            ops = [OPS[fixed_first if (i == 0 and fixed_first is not None) else cl(a[f'o{i}'], len(OPS))] for i in range(nops)]
            pi = pl[cl(a['pi'], len(pl))]
            key = 'history:' + '+'.join(sorted(set(ops)))
            out.setdefault(key, violation(key, f'probe #{pi} after prior operations {ops} differs from the same probe with an '
                                               f'empty history; {v["exc"]}', 'c15_history', {'pi': pi, 'ops': ops}))
        return list(out.values())
    return from_explore(st, info, mk)


def obligations(tier):
    q = tier == 'quick'
    F = ['TRS.__init__', 'TRS.trs (setter)', 'TRS._cache_trs_to_dict', 'TRS.trs_to_dict', 'TRS._clear_cache',
         'TRS.construct_trs', 'plss_preprocess', 'unpack_twprge', 'find_twprge', 'Tract.__init__', 'Tract.to_dict',
         'PLSSDesc.__init__', 'TractList.tracts_to_dict', 'TractList.list_trs']
    obs = [Ob('history_1', 'S', ob_history, 'one prior operation', functions=F, weight=2, timeout=1500,
              params={'nops': 1, 'cap': 1200}),
           ]
    from props.c15_ref import OPS
    for k, name in enumerate(OPS):
        obs.append(Ob(f'history_2_{name}', 'S', ob_history, f'two prior operations, the first being {name}', functions=F, weight=6,
                      timeout=3000, params={'nops': 2, 'cap': 2700, 'first': k}))
    if not q:
        from props.c15_ref import N_PROBES
        for sh in range(7):
            obs.append(Ob(f'history_3_{sh}', 'S', ob_history, f'three prior operations, probes shard {sh}', functions=F, weight=9,
                          timeout=7000, params={'nops': 3, 'cap': 6500, 'probes': list(range(sh * 2, min(sh * 2 + 2, N_PROBES)))}))
    return obs
