"""C15 -- results depend only on text and settings, not on what ran before."""
from engine.framework import Ob, result, violation, from_explore

PROPERTY = 'C15'
LEVEL = 'other'
FILES = ['pytrs/parser/trs/trs.py', 'pytrs/parser/config/master_config.py', 'pytrs/parser/tract/tract.py',
         'pytrs/parser/plssdesc/plss_preprocess.py', 'pytrs/parser/plssdesc/plss_parse.py']
ASSUMPTIONS = [
    'probes: Twp/Rge/Sec built from direction-less numbers under four pairs of MasterConfig defaults (expected values from the specification), 8 Twp/Rge/Sec strings (valid, upper case, error, undefined, near-miss, empty), 2 tract descriptions, 4 PLSS '
    'descriptions (incl. missing directions, which depend on MasterConfig); prior activity is a symbolic sequence over 9 '
    'operation kinds (other parses, MasterConfig changed and restored, cache cleared / off / on / pre-warmed, returned '
    'dicts and lists mutated, the same probe parsed under other defaults)',
    'baseline = the probe evaluated first in the same worker process with an empty history; "fresh interpreter" is used '
    'only by the replay of a counterexample',
]
EXPLANATION = ('CrossHair executes the real library through symbolic sequences of prior operations followed by a probe and '
               'compares the probe observables with the empty-history baseline; the path tree over (sequence, probe) is '
               'exhausted.')


def ob_history(ob):
    from engine.xh import explore, choose, NoTracing
    from props.c15_ref import observe, apply_op, OPS, N_PROBES
    import pytrs
    nops = ob.params['nops']
    probes = ob.params.get('probes', range(N_PROBES))
    with NoTracing():
        pytrs.TRS._clear_cache()
        pytrs.TRS._USE_CACHE = True
        base = {pi: observe(pi) for pi in probes}
        if N_PROBES - 1 in base:
            from props.c15_ref import expected_defaults
            base[N_PROBES - 1] = expected_defaults()      # the defaults probe is held against the specification, not a first run

    fixed_first = ob.params.get('first')
    fixed_second = ob.params.get('second')
    PER_PROBE = ('mutate_exports', 'parse_same_under_other_defaults')
    plist = list(probes)

    def run(ops):
        # only the choice of operations is symbolic; the operations and the probes are concrete and run natively, because under
        # tracing CrossHair bypasses functools.lru_cache (a memo that leaks state would neither be filled nor consulted)
        chosen = [fixed_first if (j == 0 and fixed_first is not None) else fixed_second if (j == 1 and fixed_second is not None)
                  else choose(o, range(len(OPS))) for j, o in enumerate(ops)]
        with NoTracing():
            return run_concrete([int(c) for c in chosen])

    def run_concrete(chosen):
        save = (pytrs.TRS._USE_CACHE, pytrs.MasterConfig.default_ns, pytrs.MasterConfig.default_ew)
        try:
            for op in chosen:
                if OPS[op] in PER_PROBE:
                    for pi in plist:
                        apply_op(op, pi)
                else:
                    apply_op(op, plist[0])
            if (pytrs.MasterConfig.default_ns, pytrs.MasterConfig.default_ew) != save[1:]:
                return False
            # every probe is evaluated after every history: a leak shows on the first path that contains its cause
            for pi in plist:
                if observe(pi) != base[pi]:
                    return False
            return True
        finally:
            pytrs.TRS._USE_CACHE, pytrs.MasterConfig.default_ns, pytrs.MasterConfig.default_ew = save

    if nops == 1:
        def target(o0: int):
            return run([o0])
    elif nops == 2:
        def target(o0: int, o1: int):
            return run([o0, o1])
    elif nops == 3:
        def target(o0: int, o1: int, o2: int):
            return run([o0, o1, o2])
    else:
        def target(o0: int, o1: int, o2: int, o3: int):
            return run([o0, o1, o2, o3])
    st = explore(target, timeout=ob.params.get('cap', 900), max_viol=1)
    info = dict(bound=f'histories of {nops} prior operations over {len(OPS)} kinds x {len(list(probes))} probes',
                samples=[{'ops': list(OPS)}])

    def cl(x, n):
        return x if 0 <= x < n - 1 else n - 1

    def mk(vs):
        out = {}
        for v in vs:
            a = v['args']
            ops = [OPS[fixed_first if (i == 0 and fixed_first is not None) else fixed_second if (i == 1 and fixed_second is not None) else cl(a[f'o{i}'], len(OPS))] for i in range(nops)]
            key = 'history:' + '+'.join(sorted(set(ops)))
            out.setdefault(key, violation(key, f'after prior operations {ops} some probe differs from the same probe with an empty history; {v["exc"]}',
                                          'c15_history', {'ops': ops}))
        return list(out.values())
    return from_explore(st, info, mk)


def obligations(tier):
    q = tier == 'quick'
    F = ['TRS.__init__', 'TRS.trs (setter)', 'TRS._cache_trs_to_dict', 'TRS.trs_to_dict', 'TRS._clear_cache',
         'TRS.construct_trs', 'plss_preprocess', 'unpack_twprge', 'find_twprge', 'Tract.__init__', 'Tract.to_dict',
         'PLSSDesc.__init__', 'TractList.tracts_to_dict', 'TractList.list_trs']
    from props.c15_ref import OPS
    obs = [Ob('history_1', 'S', ob_history, 'one prior operation', functions=F, weight=2, timeout=1500, params={'nops': 1, 'cap': 1200})]
    for k, name in enumerate(OPS):
        obs.append(Ob(f'history_2_{name}', 'S', ob_history, f'two prior operations, the first being {name}', functions=F, weight=6,
                      timeout=3000, params={'nops': 2, 'cap': 2700, 'first': k}))
    if not q:
        from props.c15_ref import N_PROBES
        for k, name in enumerate(OPS):
            for k2, name2 in enumerate(OPS):
                obs.append(Ob(f'history_4_{name}_{name2}', 'S', ob_history, f'four prior operations, the first two being {name}, {name2}', functions=F,
                              weight=7, timeout=7000, params={'nops': 4, 'cap': 6500, 'first': k, 'second': k2}))
        for k, name in enumerate(OPS):
            obs.append(Ob(f'history_3_{name}', 'S', ob_history, f'three prior operations, the first being {name}', functions=F, weight=9,
                          timeout=7000, params={'nops': 3, 'cap': 6500, 'first': k}))
    return obs
