"""C18 -- filter/group operations partition the list; containers never drop silently."""
from engine.framework import Ob, result, violation, from_explore

PROPERTY = 'C18'
LEVEL = 'other'
FILES = ['pytrs/parser/containers/containers.py']
ASSUMPTIONS = [
    'filter/group harnesses use Tract subclasses that bypass __init__ (attributes handed in, possibly symbolic); '
    'filter_errors / filter_duplicates / construction harnesses use real Tract and TRS objects built from a table of '
    'Twp/Rge/Sec strings chosen by symbolic index',
    'lists of at most 4 elements; attribute domains of size 2 so that equal keys occur',
]
EXPLANATION = ('CrossHair explores the real container methods over symbolic list length, predicate truth table, drop '
               'flag, element kinds and attribute values; each path is compared with an order-preserving partition '
               'oracle written from the documentation.')

TRS_TABLE = ('154n97w14', '154n97w14', '155n97w01', 'XXXz97w14', '154nXXXz14', '154n97wXX', '___z97w14',
             '154n___z14', '154n97w__', '___z___z__', 'XXXzXXXzXX')


def _pick(idx, seq):
    for i, v in enumerate(seq):
        if idx == i:
            return v
    raise AssertionError


# ------------------------------------------------------------------ filter(key, drop)
def ob_filter(ob):
    from engine.xh import explore, IgnoreAttempt
    from props.symobj import SymTRS, SymTract
    from pytrs.parser.containers.containers import TractList, TRSList
    NMAX = ob.params['n']

    def target(n: int, pred: int, drop: bool, kind: bool, dupmask: int):
        if not (0 <= n <= NMAX and 0 <= pred < 2 ** NMAX and 0 <= dupmask < 2 ** NMAX):
            raise IgnoreAttempt
        n = _pick(n, range(NMAX + 1))
        if pred >= 2 ** n or dupmask >= 2 ** n:
            raise IgnoreAttempt
        els = []
        for i in range(n):
            if i > 0 and (dupmask >> i) & 1:
                els.append(els[i - 1])            # the same instance twice
            else:
                t = SymTRS(1, 'n', 1, 'w', 1, i, trs_str='1n1w%02d' % i)
                els.append(SymTract(i, t, i) if kind else t)
        lst = (TractList if kind else TRSList)(els)
        if [id(x) for x in lst] != [id(x) for x in els]:
            return False
        pos = {}
        sel = []
        rest = []
        for i, e in enumerate(els):
            # the predicate is a truth table over *positions* of first occurrence (same instance -> same answer)
            j = pos.setdefault(id(e), i)
            (sel if (pred >> j) & 1 else rest).append(e)
        out = lst.filter(lambda x: bool((pred >> pos[id(x)]) & 1), drop=drop)
        if type(out) is not type(lst):
            return False
        if [id(x) for x in out] != [id(x) for x in sel]:
            return False
        want = rest if drop else els
        return [id(x) for x in lst] == [id(x) for x in want]

    st = explore(target, timeout=ob.params.get('cap', 300), max_viol=3)
    info = dict(bound=f'lists of 0..{NMAX} elements (repeated instances allowed), every predicate truth table, drop on/off, '
                      f'TractList and TRSList', samples=[{'n': 3, 'pred': '0b101', 'drop': True, 'expected': 'returns [e0,e2]; leaves [e1]'}])
    return from_explore(st, info, lambda vs: [
        violation('filter:partition', f'filter(drop={v["args"]["drop"]}) with predicate table {bin(v["args"]["pred"])} on '
                  f'{v["args"]["n"]} elements (dupmask {bin(v["args"]["dupmask"])}) is not the order-preserving partition; {v["exc"]}',
                  'c18_filter', {k: (int(x) if not isinstance(x, bool) else x) for k, x in v['args'].items()}) for v in vs])


# ------------------------------------------------------------------ filter_errors
def ob_filter_errors(ob):
    from engine.xh import explore, IgnoreAttempt, NoTracing
    from pytrs.parser.containers.containers import TractList, TRSList
    from pytrs.parser.tract import Tract
    from pytrs.parser.trs import TRS
    from spec import trs_spec as SP
    NMAX = ob.params['n']
    TRS_TABLE = ob.params.get('table', globals()['TRS_TABLE'])
    T = len(TRS_TABLE)

    def target(n: int, e0: int, e1: int, e2: int, twp: bool, rge: bool, sec: bool, undef: bool, drop: bool, kind: bool):
        if not (1 <= n <= NMAX and 0 <= e0 < T and 0 <= e1 < T and 0 <= e2 < T):
            raise IgnoreAttempt
        n = _pick(n, range(NMAX + 1))
        idx = [_pick(e, range(T)) for e in (e0, e1, e2)][:n]
        for j in range(n, 3):
            if (e0, e1, e2)[j] != 0:
                raise IgnoreAttempt
        with NoTracing():
            els = [Tract('d', trs=TRS_TABLE[i]) if kind else TRS(TRS_TABLE[i]) for i in idx]
            exp = []
            for i, e in zip(idx, els):
                d = SP.decompose(TRS_TABLE[i])
                is_err = (twp and d['twp_num'] is None and not d['twp_undef']) or \
                         (rge and d['rge_num'] is None and not d['rge_undef']) or \
                         (sec and d['sec_num'] is None and not d['sec_undef'])
                is_undef = (twp and d['twp_undef']) or (rge and d['rge_undef']) or (sec and d['sec_undef'])
                exp.append(bool(is_err or (undef and is_undef)))
        lst = (TractList if kind else TRSList)(els)
        out = lst.filter_errors(twp=twp, rge=rge, sec=sec, undef=undef, drop=drop)
        sel = [e for e, x in zip(els, exp) if x]
        rest = [e for e, x in zip(els, exp) if not x]
        if [id(x) for x in out] != [id(x) for x in sel]:
            return False
        return [id(x) for x in lst] == [id(x) for x in (rest if drop else els)]

    st = explore(target, timeout=ob.params.get('cap', 300), max_viol=3)
    info = dict(bound=f'1..{NMAX} elements from {T} Twp/Rge/Sec strings (valid, error / undefined per component), all 16 '
                      f'flag settings x drop x container', samples=[{'trs_table': list(TRS_TABLE)}])
    return from_explore(st, info, lambda vs: [
        violation('filter_errors:partition', f'filter_errors disagrees with the documented criterion for {v["args"]}; {v["exc"]}',
                  'c18_filter_errors', dict(table=list(TRS_TABLE), **{k: (x if isinstance(x, bool) else int(x)) for k, x in v['args'].items()}))
        for v in vs])


# ------------------------------------------------------------------ filter_duplicates
METHODS = ('default', 'instance', 'trs', 'desc', 'lots_qqs')


def dup_expected(kind, method, els, keys):
    """documented criterion: an element is a duplicate iff an *earlier* element is the same under the method"""
    if method == 'default':
        method = 'instance' if kind else 'trs'
    exp = []
    for i, e in enumerate(els):
        dup = False
        for j in range(i):
            same_inst = (els[j] is e) if kind else (els[j].trs == e.trs)   # TRS objects are equal iff same .trs
            if same_inst:
                dup = True
            elif method != 'instance' and keys[method][i] is not None and keys[method][i] == keys[method][j]:
                dup = True
        exp.append(dup)
    return exp


def ob_filter_dups(ob):
    from engine.xh import explore, IgnoreAttempt, NoTracing
    from pytrs.parser.containers.containers import TractList, TRSList
    from pytrs.parser.tract import Tract
    from pytrs.parser.trs import TRS
    NMAX = ob.params['n']
    from props.c18_ref import DESCS, TR
    only_kind = ob.params['kind']

    def target(n: int, t0: int, t1: int, t2: int, d0: int, d1: int, d2: int, p0: bool, p1: bool, p2: bool,
               same: int, m: int, drop: bool, kind: bool):
        if not (1 <= n <= NMAX and 0 <= m < len(METHODS) and 0 <= same < 4):
            raise IgnoreAttempt
        if bool(kind) != only_kind:
            raise IgnoreAttempt
        if not only_kind and (d0 or d1 or d2 or p0 or p1 or p2):
            raise IgnoreAttempt
        for t in (t0, t1, t2):
            if not 0 <= t < len(TR):
                raise IgnoreAttempt
        for d in (d0, d1, d2):
            if not 0 <= d < len(DESCS):
                raise IgnoreAttempt
        if bool(kind) != only_kind:
            raise IgnoreAttempt
        n = _pick(n, range(NMAX + 1))
        m = _pick(m, range(len(METHODS)))
        same = _pick(same, range(4))
        for j in range(n, 3):
            if (t0, t1, t2)[j] or (d0, d1, d2)[j] or (p0, p1, p2)[j]:
                raise IgnoreAttempt
        ts = [_pick(t, range(len(TR))) for t in (t0, t1, t2)][:n]
        ds = [_pick(d, range(len(DESCS))) for d in (d0, d1, d2)][:n]
        ps = [bool(p) for p in (p0, p1, p2)][:n]
        if not kind and (any(ds) or any(ps)):
            raise IgnoreAttempt
        with NoTracing():
            els = []
            for i in range(n):
                if kind:
                    els.append(Tract(DESCS[ds[i]], trs=TR[ts[i]], parse_qq=ps[i]))
                else:
                    els.append(TRS(TR[ts[i]]))
            # `same`: 1 -> element 1 is the same instance as element 0; 2 -> element 2 same as 0; 3 -> 2 same as 1
            if same == 1 and n >= 2:
                els[1] = els[0]
            elif same == 2 and n >= 3:
                els[2] = els[0]
            elif same == 3 and n >= 3:
                els[2] = els[1]
            elif same:
                raise IgnoreAttempt
            keys = {'trs': [e.trs for e in els]}
            if kind:
                keys['desc'] = [f'{e.trs}_{e.pp_desc.strip()}' for e in els]
                keys['lots_qqs'] = [(e.trs, tuple(sorted(set(e.lots_qqs)))) if e.parse_complete else None for e in els]
            else:
                keys['desc'] = [e.trs for e in els]
                keys['lots_qqs'] = [None for e in els]
            exp = dup_expected(kind, METHODS[m], els, keys)
        lst = (TractList if kind else TRSList)(els)
        out = lst.filter_duplicates(method=METHODS[m], drop=drop)
        sel = [e for e, x in zip(els, exp) if x]
        rest = [e for e, x in zip(els, exp) if not x]
        if [id(x) for x in out] != [id(x) for x in sel]:
            return False
        return [id(x) for x in lst] == [id(x) for x in (rest if drop else els)]

    st = explore(target, timeout=ob.params.get('cap', 400), max_viol=3)
    info = dict(bound=f'1..{NMAX} real Tract/TRS elements (3 TRS strings x 5 descriptions x parsed/unparsed, shared instances), '
                      f'methods {METHODS}, drop on/off', samples=[{'descs': DESCS, 'trs': TR, 'methods': METHODS}])
    return from_explore(st, info, lambda vs: [
        violation(f'filter_duplicates:{METHODS[v["args"]["m"]]}',
                  f'filter_duplicates(method={METHODS[v["args"]["m"]]!r}) disagrees with "an earlier element is the same" for '
                  f'{v["args"]}; {v["exc"]}', 'c18_filter_dups',
                  {k: (x if isinstance(x, bool) else int(x)) for k, x in v['args'].items()}) for v in vs])


# ------------------------------------------------------------------ group_by / group_by_nested / unpack_group
ATTRS = ('twp_num', 'sec_num', 'rge_num')


def ob_group(ob):
    from engine.xh import explore, IgnoreAttempt
    from props.symobj import SymTRS, SymTract
    from pytrs.parser.containers.containers import TractList, TRSList
    NMAX = ob.params['n']
    nested = ob.params['nested']
    ORDERS = ((0,), (1,), (0, 1), (1, 0), (0, 1, 2), (2, 0, 1))

    def target(n: int, oi: int, a0: int, a1: int, a2: int, a3: int, b0: int, b1: int, b2: int, b3: int,
               c0: int, c1: int, c2: int, c3: int, aslist: bool):
        if not (0 <= n <= NMAX and 0 <= oi < len(ORDERS)):
            raise IgnoreAttempt
        n = _pick(n, range(NMAX + 1))
        order = _pick(oi, ORDERS)
        A = [a0, a1, a2, a3][:n]; B = [b0, b1, b2, b3][:n]; C = [c0, c1, c2, c3][:n]
        for v in A + B + C:
            if not 0 <= v <= 1:
                raise IgnoreAttempt
        for j in range(n, 4):           # unused slots fixed
            if [a0, a1, a2, a3][j] or [b0, b1, b2, b3][j] or [c0, c1, c2, c3][j]:
                raise IgnoreAttempt
        if 2 not in order and any(C):
            raise IgnoreAttempt
        A = [_pick(v, (0, 1)) for v in A]; B = [_pick(v, (0, 1)) for v in B]; C = [_pick(v, (0, 1)) for v in C]
        els = [SymTract(i, SymTRS(A[i], 'n', C[i], 'w', B[i], i), i) for i in range(n)]
        lst = TractList(els)
        attrs = [ATTRS[k] for k in order]
        arg = attrs if (aslist or len(attrs) > 1) else attrs[0]
        vals = {i: tuple((A[i], B[i], C[i])[k] for k in order) for i in range(n)}
        if nested:
            g = lst.group_by_nested(arg)
        else:
            g = lst.group_by(arg)
        if [e.tag for e in lst] != list(range(n)):
            return False
        # flatten
        seen = []

        def walk(d, prefix):
            for k, v in d.items():
                if isinstance(v, dict):
                    if not nested:
                        return False
                    if walk(v, prefix + (k,)) is False:
                        return False
                else:
                    if type(v) is not TractList:
                        return False
                    key = (prefix + (k,)) if nested else (k if isinstance(k, tuple) else (k,))
                    tags = [e.tag for e in v]
                    if not tags or tags != sorted(tags):
                        return False
                    for t in tags:
                        if vals[t] != tuple(key):
                            return False
                        seen.append(t)
            return True
        if walk(g, ()) is False:
            return False
        if sorted(seen) != list(range(n)):
            return False
        un = TractList.unpack_group(g)
        return sorted(e.tag for e in un) == list(range(n)) and type(un) is TractList

    st = explore(target, timeout=ob.params.get('cap', 400), max_viol=3)
    info = dict(bound=f'0..{NMAX} elements, attribute lists {[[ATTRS[k] for k in o] for o in ORDERS]}, attribute values in {{0,1}}',
                samples=[{'attributes': ['twp_num', 'sec_num'], 'nested': nested}])
    return from_explore(st, info, lambda vs: [
        violation('group_by_nested' if nested else 'group_by',
                  f'{"group_by_nested" if nested else "group_by"} is not a partition keyed by attribute values for {v["args"]}; {v["exc"]}',
                  'c18_group', dict(nested=nested, **{k: (x if isinstance(x, bool) else int(x)) for k, x in v['args'].items()}))
        for v in vs])


# ------------------------------------------------------------------ construction / extension
KINDS = ('tract', 'trs', 'str', 'int', 'none', 'plssdesc')
PATHS = ('ctor', 'extend', 'iadd', 'add', 'append', 'insert', 'setitem', 'from_multiple', 'from_multiple_nested', 'ctor_container')


def ob_construct(ob):
    from engine.xh import explore, IgnoreAttempt, NoTracing
    from pytrs.parser.containers.containers import TractList, TRSList
    from pytrs.parser.tract import Tract
    from pytrs.parser.trs import TRS
    from pytrs.parser.plssdesc import PLSSDesc
    NMAX = ob.params['n']

    def target(n: int, k0: int, k1: int, k2: int, path: int, trslist: bool):
        if not (1 <= n <= NMAX and 0 <= path < len(PATHS)):
            raise IgnoreAttempt
        for k in (k0, k1, k2):
            if not 0 <= k < len(KINDS):
                raise IgnoreAttempt
        n = _pick(n, range(NMAX + 1))
        ks = [_pick(k, range(len(KINDS))) for k in (k0, k1, k2)]
        for j in range(n, 3):
            if ks[j]:
                raise IgnoreAttempt
        ks = ks[:n]
        path = _pick(path, range(len(PATHS)))
        pname = PATHS[path]
        if pname in ('append', 'insert', 'setitem') and n != 1:
            raise IgnoreAttempt
        with NoTracing():
            items = []
            for i, k in enumerate(ks):
                kn = KINDS[k]
                items.append({'tract': lambda: Tract('NE/4', trs='154n97w%02d' % (i + 1)),
                              'trs': lambda: TRS('154n97w%02d' % (i + 1)),
                              'str': lambda: '154n97w%02d' % (i + 1), 'int': lambda: 7 + i, 'none': lambda: None,
                              'plssdesc': lambda: PLSSDesc('T154N-R97W Sec %d: NE/4' % (i + 1))}[kn]())
            ok_kinds = ('tract', 'trs', 'str') if trslist else ('tract',)
            if pname.startswith('from_multiple'):
                ok_kinds = ok_kinds + ('plssdesc',)      # documented source: contributes its tracts
            all_ok = all(KINDS[k] in ok_kinds for k in ks)
            base = Tract('W/2', trs='1n1w01')
            expanded = []
            for it in items:
                if isinstance(it, PLSSDesc):
                    expanded.extend(list(it.tracts))
                else:
                    expanded.append(it)
        cls = TRSList if trslist else TractList
        lst = cls([base])
        raised = None
        try:
            if pname == 'ctor':
                lst = cls([base] + items)
            elif pname == 'ctor_container':
                lst = cls(cls([base] + items))
            elif pname == 'extend':
                lst.extend(items)
            elif pname == 'iadd':
                lst += items
            elif pname == 'add':
                lst = lst + items
            elif pname == 'append':
                lst.append(items[0])
            elif pname == 'insert':
                lst.insert(1, items[0])
            elif pname == 'setitem':
                lst.append(base)
                lst[1] = items[0]
            elif pname == 'from_multiple':
                lst = cls.from_multiple(base, *items)
            else:
                lst = cls.from_multiple([base], [items])
        except TypeError:
            raised = 'TypeError'
        except RecursionError:
            return False
        if pname == 'ctor_container' and raised is None and not all_ok:
            return False
        if not all_ok:
            # every supplied element is kept or TypeError is raised; a foreign element is never kept
            return raised == 'TypeError'
        if raised:
            return False
        got = list(lst)
        if len(got) != 1 + len(expanded):
            return False
        for g, it in zip(got[1:], expanded):
            if trslist:
                if type(g) is not TRS or g.trs != (it if isinstance(it, str) else it.trs):
                    return False
            elif g is not it:
                return False
        return True

    st = explore(target, timeout=ob.params.get('cap', 400), max_viol=12)
    info = dict(bound=f'1..{NMAX} supplied elements of kinds {KINDS}, construction paths {PATHS}, TractList and TRSList',
                samples=[{'kinds': ['tract', 'int'], 'path': 'extend', 'expected': 'TypeError'}])

    def mk(vs):
        out = []
        for v in vs:
            a = v['args']
            ks = [KINDS[a[f'k{i}']] for i in range(a['n'])]
            pname = PATHS[a['path']]
            ok_kinds = ('tract', 'trs', 'str') if a['trslist'] else ('tract',)
            if pname.startswith('from_multiple'):
                ok_kinds = ok_kinds + ('plssdesc',)
            foreign = [k for k in ks if k not in ok_kinds]
            if foreign and pname in ('ctor', 'extend', 'iadd', 'add', 'ctor_container'):
                key = 'construct:foreign-element-skipped-silently'
            elif foreign and pname.startswith('from_multiple') and ('str' in foreign):
                key = 'construct:from_multiple-str-recursion'
            else:
                key = f'construct:{pname}:{"foreign" if foreign else "ok"}'
            out.append(violation(key, f'{"TRSList" if a["trslist"] else "TractList"} via {pname} with element kinds {ks}: '
                                      f'neither all elements kept in order nor TypeError ({v["exc"]})', 'c18_construct',
                                 {'kinds': ks, 'path': pname, 'trslist': bool(a['trslist'])}))
        return out
    return from_explore(st, info, mk)


def obligations(tier):
    q = tier == 'quick'
    F = ['_TRSTractList.filter', '_TRSTractList._new_list_from_self', '_TRSTractList.pop']
    obs = [
        Ob('filter', 'S', ob_filter, 'filter(key, drop) is the order-preserving partition', functions=F, weight=3,
           timeout=1200, params={'n': 3 if q else 4, 'cap': 900}),
        Ob('filter_errors', 'S', ob_filter_errors, 'filter_errors selects exactly error (and optionally undefined) TRS',
           functions=['_TRSTractList.filter_errors', 'TRS.is_error', 'TRS.is_undef'] + F[1:], weight=5, timeout=2400,
           params={'n': 2, 'cap': 2000, 'table': TRS_TABLE[1:] if not q else
                   ('154n97w14', 'XXXz97w14', '154n97wXX', '___z97w14', '154n97w__', '154nXXXz14')}),
        Ob('filter_duplicates_tract', 'S', ob_filter_dups, 'filter_duplicates on TractList: exactly later repeats under each method',
           functions=['_TRSTractList.filter_duplicates'] + F[1:], weight=8, timeout=3000,
           params={'n': 2 if q else 3, 'cap': 2700, 'kind': True}),
        Ob('filter_duplicates_trs', 'S', ob_filter_dups, 'filter_duplicates on TRSList',
           functions=['_TRSTractList.filter_duplicates'] + F[1:], weight=3, timeout=2400,
           params={'n': 3, 'cap': 2000, 'kind': False}),
        Ob('group_by', 'S', ob_group, 'group_by puts each element in exactly one group keyed by attribute values',
           functions=['_TRSTractList.group_by', '_TRSTractList._group', '_TRSTractList.unpack_group'], weight=6,
           timeout=2400, params={'n': 3 if q else 4, 'nested': False, 'cap': 2000}),
        Ob('group_by_nested', 'S', ob_group, 'group_by_nested: nested dicts keyed by attribute values',
           functions=['_TRSTractList.group_by_nested', '_TRSTractList._group', '_TRSTractList.unpack_group'], weight=6,
           timeout=2400, params={'n': 3 if q else 4, 'nested': True, 'cap': 2000}),
        Ob('construct', 'S', ob_construct, 'construction / extension keeps every element or raises TypeError',
           functions=['_TRSTractList.__init__', '_verify_iterable', '_verify_individual', '_handle_type_specially',
                      'extend', '__iadd__', '__add__', 'append', 'insert', '__setitem__', '_from_multiple'], weight=6,
           timeout=2400, params={'n': 2 if q else 3, 'cap': 2000}),
    ]
    return obs
