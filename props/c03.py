"""C03 -- parsing is total: any text, any valid configuration, never an exception."""
from engine.framework import Ob, result, violation, from_explore

PROPERTY = 'C03'
LEVEL = 'other'
FILES = ['pytrs/parser/plssdesc/plss_parse.py', 'pytrs/parser/plssdesc/plssdesc.py',
         'pytrs/parser/plssdesc/plss_preprocess.py', 'pytrs/parser/tract/tract.py', 'pytrs/parser/tract/tract_parse.py',
         'pytrs/parser/tract/tract_preprocess.py', 'pytrs/parser/unpack/unpackers.py', 'pytrs/parser/config/config.py']
ASSUMPTIONS = [
    'glue harness: the real plss_parse module runs on canonical documents with provenance; the four finder patterns are '
    'contract patterns answering from the document\'s segment table (contract discharged for the template family by the '
    'L-EXACT obligations of C01); document shape (0..2 segments quick / 0..3 thorough, 5 segment variants, fillers from a '
    'table incl. empty / short / cull-word / connector blocks) and parse mode are symbolic',
    'document invariant taken from the preprocessor: a Twp/Rge is followed by at least one character unless it ends the text',
    'token-soup harness: real PLSSDesc / Tract on texts assembled from a PLSS vocabulary by symbolic choice (real regexes, '
    'concrete text); argument validation: symbolic choice among wrong-typed / wrong-valued arguments',
]
EXPLANATION = ('CrossHair explores the real parsing glue over every document shape x parse mode of the bounded family and '
               'over token sequences of the PLSS vocabulary; a path holds iff no exception escapes and at least one tract '
               'results; invalid arguments must raise exactly the documented exception types.')

TOKENS = ('T154N-R97W', 'Township 154 North, Range 97 West', 'Sec 14', 'Section 14:', 'Sections 1 - 3:', 'of', 'NE/4',
          'N/2 of Lot 1', 'Lots 1(38.2) through 3', ':', '§', '154', 'ALL', 'less and except the well', '\n', 'T2N-R2W',
          'Lot', 'P.M.', 'Sec', 'N½ of the', '(', '1/2', 'thru', 'TIS4N-R97W', 'T15|N-R9]W', 'Township 1o4 North Range 9i West')
TOK_Q = (0, 2, 3, 4, 5, 6, 7, 9, 10, 18)
CONFIGS = ('', 'sec_colon_required', 'ocr_scrub,clean_qq,parse_qq', 'segment', 'sec_within', 'sec_colon_cautious',
           'copy_all', 'desc_STR,parse_qq', 'S_desc_TR,segment,sec_within', 'TR_desc_S,qq_depth.1,parse_qq',
           's,e,break_halves,qq_depth_min.1,qq_depth_max.3,parse_qq')


def _invariant_ok(variants, fillers):
    """a Twp/Rge is followed by at least one character unless it ends the text (guaranteed by plss_preprocess)"""
    for i, v in enumerate(variants):
        if v == 0 and fillers[i + 1] == 0 and i + 1 < len(variants):
            return False
    return True


def ob_glue_total(ob):
    from engine.xh import explore
    from props import plss_abs as P
    mmax, fill, modes = ob.params['mmax'], ob.params['fill'], ob.params['modes']

    def oracle(doc, mode, parser, exc):
        if exc is not None:
            for i, s in enumerate(doc.segs[:-1]):      # unreachable pre-state: Twp/Rge glued to the next segment
                if s.kind == 'TR' and doc.fillers[i + 1] == '':
                    return True
            return False
        return len(parser.tracts) >= 1

    st = explore(P.make_target(mmax, fill, modes, oracle), timeout=ob.params.get('cap', 900), max_viol=8)
    info = dict(bound=f'documents of 0..{mmax} segments x fillers {[P.FILLERS[f] for f in fill]} x modes {modes}',
                samples=[{'doc': ' NE/4 T150N-R90W of Sec 11: NE/4 ', 'mode': modes[0]}])

    def mk(vs):
        out = {}
        for v in vs:
            variants, fillers, mode = P.decode(v['args'], mmax, fill, modes)
            doc = P.build_doc(variants, fillers)
            key = 'plss-glue-exception' if True else ''
            cfg = {'default': '', 'colon_required': 'sec_colon_required', 'colon_cautious': 'sec_colon_cautious',
                   'segment': 'segment', 'sec_within': 'sec_within', 'segment_within': 'segment,sec_within'}.get(mode, mode)
            out.setdefault((doc.string, cfg), violation(key, f'PLSSDesc({doc.string!r}, config={cfg!r}) raises or yields no tract',
                                                        'c03_plss', {'text': doc.string, 'config': cfg}))
        return list(out.values())
    return from_explore(st, info, mk)


def ob_soup(ob):
    """real PLSSDesc / Tract on token sequences"""
    from engine.xh import explore, choose
    from pytrs.parser.plssdesc import PLSSDesc
    from pytrs.parser.tract import Tract
    n, toks, cfgs, what = ob.params['n'], ob.params['toks'], ob.params['cfgs'], ob.params['what']
    seps = (' ', ', ', '')

    def run(ts, ss, ci):
        parts = []
        for i, (t, s) in enumerate(zip(ts, ss)):
            parts.append(TOKENS[choose(t, toks)])
            parts.append(choose(s, seps) if i == 0 else ' ')      # only the first separator varies
        text = ''.join(parts)
        cfg = choose(ci, cfgs)
        if what == 'plss':
            d = PLSSDesc(text, config=cfg)
            if len(d.tracts) < 1:
                return False
            d2 = PLSSDesc(text, config=cfg, parse_qq=True)
            return len(d2.tracts) >= 1
        t = Tract(text, trs='154n97w14', config=cfg, parse_qq=True)
        t.parse()
        t.preprocess(commit=True)
        return isinstance(t.lots, list) and isinstance(t.qqs, list) and t.ilots is not None

    if n == 2:
        def target(t0: int, t1: int, s0: int, s1: int, ci: int):
            return run([t0, t1], [s0, s1], ci)
    elif n == 3:
        def target(t0: int, t1: int, t2: int, s0: int, s1: int, s2: int, ci: int):
            return run([t0, t1, t2], [s0, s1, s2], ci)
    else:
        def target(t0: int, t1: int, t2: int, t3: int, s0: int, s1: int, s2: int, s3: int, ci: int):
            return run([t0, t1, t2, t3], [s0, s1, s2, s3], ci)
    st = explore(target, timeout=ob.params.get('cap', 900), max_viol=5)
    info = dict(bound=f'{what}: sequences of {n} tokens from {[TOKENS[t] for t in toks]} x separators {seps} x configs {cfgs}',
                samples=[{'text': 'T154N-R97W of Sec 14, NE/4', 'config': cfgs[0]}])

    def cl(x, k):
        return x if 0 <= x < k - 1 else k - 1

    def mk(vs):
        out = []
        for v in vs:
            a = v['args']
            text = ''.join(TOKENS[toks[cl(a[f't{i}'], len(toks))]] + (seps[cl(a[f's{i}'], len(seps))] if i == 0 else ' ') for i in range(n))
            cfg = cfgs[cl(a['ci'], len(cfgs))]
            out.append(violation(f'{what}-soup-exception', f'{"PLSSDesc" if what == "plss" else "Tract"}({text!r}, config={cfg!r}) '
                                 f'raises or yields no tract: {v["exc"]}', 'c03_plss' if what == 'plss' else 'c03_tract',
                                 {'text': text, 'config': cfg}))
        return out
    return from_explore(st, info, mk)


BAD_ARGS = (
    ('PLSSDesc', 'text', 5, 'TypeError'), ('PLSSDesc', 'text', None, 'TypeError'), ('PLSSDesc', 'text', b'T154N', 'TypeError'),
    ('PLSSDesc', 'text', ['T154N-R97W'], 'TypeError'),
    ('PLSSDesc', 'config', 5, 'ConfigError'), ('PLSSDesc', 'config', ['n'], 'ConfigError'), ('PLSSDesc', 'config', 'nonesuch', 'ValueError'),
    ('PLSSDesc', 'config', 'clean_qq,foo.3', 'ValueError'), ('PLSSDesc', 'config', 'default_ns.x', 'DefaultNSError'),
    ('PLSSDesc', 'config', 'default_ew.q', 'DefaultEWError'), ('PLSSDesc', 'default_ns', 'x', 'DefaultNSError'),
    ('PLSSDesc', 'default_ew', 'north', 'DefaultEWError'),
    ('Tract', 'config', 5.5, 'ConfigError'), ('Tract', 'config', 'nonesuch', 'ValueError'), ('Tract', 'trs', 5, 'TypeError'),
    ('Tract', 'trs', ['154n97w14'], 'TypeError'), ('Tract', 'text', 5, 'TypeError'), ('Tract', 'text', None, 'TypeError'),
    ('Tract', 'default_ns', 'q', 'DefaultNSError'), ('Tract', 'default_ew', 'n', 'DefaultEWError'),
    ('Config', 'text', 5, 'ConfigError'), ('Config', 'dict', {'clean_qq': 'yes'}, 'ValueError'),
    ('Config', 'dict', {'qq_depth': '2'}, 'ValueError'), ('Config', 'dict', {'default_ns': 'x'}, 'DefaultNSError'),
    ('find_twprge', 'default_ns', 'x', 'DefaultNSError'), ('find_twprge', 'default_ew', 'x', 'DefaultEWError'),
    ('TRS', 'default_ns', 'x', 'DefaultNSError'), ('TRS', 'default_ew', 'x', 'DefaultEWError'),
)


def call_bad(i):
    import pytrs
    from pytrs.parser.config import ConfigError, DefaultNSError, DefaultEWError
    who, what, val, exp = BAD_ARGS[i]
    types = {'TypeError': TypeError, 'ValueError': ValueError, 'ConfigError': ConfigError,
             'DefaultNSError': DefaultNSError, 'DefaultEWError': DefaultEWError}
    text = 'T154-R97 Sec 14: NE/4'
    try:
        if who == 'PLSSDesc':
            if what == 'text':
                pytrs.PLSSDesc(val)
            elif what == 'config':
                pytrs.PLSSDesc(text, config=val)
            else:
                pytrs.PLSSDesc(text).parse(**{what: val})
        elif who == 'Tract':
            if what == 'text':
                pytrs.Tract(val, parse_qq=True)
            elif what == 'config':
                pytrs.Tract('NE/4', config=val)
            elif what == 'trs':
                pytrs.Tract('NE/4', trs=val)
            else:
                pytrs.Tract.from_twprgesec('NE/4', 154, 97, 14, **{what: val})
        elif who == 'Config':
            pytrs.Config(val) if what == 'text' else pytrs.Config.from_dict(val)
        elif who == 'find_twprge':
            pytrs.find_twprge(text, preprocess=True, **{what: val})
        else:
            pytrs.TRS.from_twprgesec(154, 97, 14, **{what: val})
    except types[exp]:
        return None
    except Exception as e:  # noqa
        return f'raised {type(e).__name__} instead of {exp}'
    return f'accepted without raising (expected {exp})'


def ob_args(ob):
    from engine.xh import explore, choose

    def target(i: int):
        return call_bad(choose(i, range(len(BAD_ARGS)))) is None
    st = explore(target, timeout=300, max_viol=10)
    info = dict(bound=f'{len(BAD_ARGS)} invalid-argument calls', samples=[{'call': BAD_ARGS[0][:3], 'expected': BAD_ARGS[0][3]}])

    def mk(vs):
        out = []
        for v in vs:
            i = v['args']['i']
            i = i if 0 <= i < len(BAD_ARGS) - 1 else len(BAD_ARGS) - 1
            out.append(violation(f'bad-arg:{BAD_ARGS[i][0]}.{BAD_ARGS[i][1]}:{BAD_ARGS[i][3]}',
                                 f'{BAD_ARGS[i][0]} with {BAD_ARGS[i][1]}={BAD_ARGS[i][2]!r}: {call_bad(i)}', 'c03_badarg', {'i': i}))
        return out
    return from_explore(st, info, mk)


def group_alphabet(pattern, name):
    """characters admitted by the (single, repeated character class) body of a named group of a live pattern"""
    from engine import rx
    gi = pattern.groupindex[name]

    def find(nodes):
        for op, arg in nodes:
            if op is rx.SUBPATTERN:
                if arg[0] == gi:
                    return arg[3]
                r = find(arg[3])
                if r is not None:
                    return r
            elif op is rx.BRANCH:
                for b in arg[1]:
                    r = find(b)
                    if r is not None:
                        return r
            elif op in (rx.MAX_REPEAT, rx.MIN_REPEAT):
                r = find(arg[2])
                if r is not None:
                    return r
        return None
    body = find(rx.parse(pattern))
    chars = set()

    def collect(nodes):
        for op, arg in nodes:
            cs = rx.node_chars(op, arg, pattern.flags)
            if cs is not None:
                chars.update(cs)
            elif op is rx.BRANCH:
                for b in arg[1]:
                    collect(b)
            elif op in (rx.MAX_REPEAT, rx.MIN_REPEAT):
                collect(arg[2])
            elif op is rx.SUBPATTERN:
                collect(arg[3])
    collect(body)
    return ''.join(sorted(chars))


def ob_unpack_twprge(ob):
    """real unpack_twprge / twprge_natural_to_short on match objects whose number groups are ANY string the live pattern's
    character class admits (symbolic, length <= L), directions present or absent, ocr_scrub on/off: never raises, and the
    result has the shape T<x><D>-R<y><E>"""
    from engine.xh import explore, choose
    import pytrs.parser.rgxlib as R
    from pytrs.parser.unpack import unpack_twprge, twprge_natural_to_short
    pname = ob.params['pattern']
    pat = getattr(R, pname)
    L = ob.params['L']
    alpha_t = group_alphabet(pat, 'twpnum')
    alpha_r = group_alphabet(pat, 'rgenum')
    has_edge = 'rgenum_edgecase_rge2' in pat.groupindex
    dirs_ns = (None, 'N', 's', 'North', 'SOUTH')
    dirs_ew = (None, 'W', 'e', 'West', 'EAST')

    class CM:
        def __init__(self, g):
            self.g = g

        def groupdict(self):
            return dict(self.g)

        def __getitem__(self, k):
            return self.g[k]

        def group(self, k=0):
            return self.g.get(k, 'x')

    which = ob.params['which']      # 'twp' or 'rge': the component whose number string is symbolic
    alpha = alpha_t if which == 'twp' else alpha_r

    def run(cs, ln, d, scrub, edge):
        num = ''.join(choose(c, alpha) for c in cs[:choose(ln, range(1, L + 1))])
        dd = choose(d, (None, 'N', 's', 'North') if which == 'twp' else (None, 'W', 'e', 'West'))
        g = {'twpnum': num if which == 'twp' else '154', 'ns': dd if which == 'twp' else 'N',
             'rgenum': num if which == 'rge' else '97', 'ew': dd if which == 'rge' else 'W'}
        if has_edge:
            g['rgenum_edgecase_rge2'] = None
            if edge and which == 'rge':
                g['rgenum'], g['rgenum_edgecase_rge2'] = None, '2'
        if pname == 'pp_twprge_ocr_scrub':
            scrub = True        # sub_scrubber unpacks matches of the OCR pattern with ocr_scrub=True only
        out = unpack_twprge(CM(g), default_ns='s', default_ew='e', ocr_scrub=bool(scrub))
        short = twprge_natural_to_short(out)
        exp_ns = (g['ns'] or 's')[0].upper()
        exp_ew = (g['ew'] or 'e')[0].upper()
        return (isinstance(out, str) and out.startswith('T') and f'{exp_ns}-R' in out and out.endswith(exp_ew)
                and isinstance(short, str))

    if L == 2:
        def target(c0: int, c1: int, ln: int, d: int, scrub: bool, edge: bool):
            return run([c0, c1], ln, d, scrub, edge)
    else:
        def target(c0: int, c1: int, c2: int, ln: int, d: int, scrub: bool, edge: bool):
            return run([c0, c1, c2], ln, d, scrub, edge)
    st = explore(target, timeout=ob.params.get('cap', 900), max_viol=4)
    info = dict(bound=f'{pname}: twpnum over {alpha_t!r}, rgenum over {alpha_r!r}, length 1..{L}, 5x5 direction spellings/absent, ocr_scrub on/off',
                samples=[{'twpnum': alpha_t[-1] + '5', 'rgenum': '9' + alpha_r[-1], 'ocr_scrub': True}])
    cl = lambda x, n: x if 0 <= x < n - 1 else n - 1

    def mk(vs):
        out = []
        for v in vs:
            a = v['args']
            n = cl(a['ln'], L) + 1
            num = ''.join(alpha[cl(a[f'c{i}'], len(alpha))] for i in range(n))
            text = (f'T{num}N-R97W' if which == 'twp' else f'T154N-R{num}W') + ' Sec 14: NE/4'
            out.append(violation('unpack_twprge-exception', f'unpack_twprge raises / mis-shapes for {which} number {num!r}, ocr_scrub={a["scrub"]}: {v["exc"]}',
                                 'c03_plss', {'text': text, 'config': 'ocr_scrub' if (a['scrub'] or pname == 'pp_twprge_ocr_scrub') else ''}))
        return out[:2]
    return from_explore(st, info, mk)


def obligations(tier):
    q = tier == 'quick'
    from props import plss_abs as P
    G = ['PLSSParser.__init__', 'PLSSParser.parse', 'PLSSParser.construct_tracts', 'PLSSChunker', 'ChunkParser.parse_safe',
         'ChunkParser.parse_chunk', 'ChunkParser.find_matches', 'ChunkParser.populate_markers', 'ChunkParser._parse_meaningful',
         'ChunkParser._parse_copyall', 'ChunkParser.get_next_twprge', 'ChunkParser.get_next_sec', 'ChunkParser.gen_flags_chunk',
         'TwpRgeFinder', 'SecFinder', 'deduce_layout', 'cleanup_desc', 'rebuild_sec_within', 'SecUnpacker', 'unpack_twprge',
         'Tract.__init__']
    obs = []
    modes = list(P.MODES)
    if q:
        for mname in modes:
            obs.append(Ob(f'glue_total_{mname}', 'S', ob_glue_total, f'glue totality, mode {mname}', functions=G, weight=6,
                          timeout=2400, params={'mmax': 2, 'fill': P.FILL_Q, 'modes': [mname], 'cap': 2100}))
    else:
        for mname in modes:
            obs.append(Ob(f'glue_total_{mname}', 'S', ob_glue_total, f'glue totality, mode {mname}', functions=G, weight=9,
                          timeout=7000, params={'mmax': 3, 'fill': (0, 2, 5), 'modes': [mname], 'cap': 6500}))
    S = ['PLSSDesc.__init__', 'PLSSDesc.parse', 'plss_preprocess', 'PLSSParser', 'Tract.parse', 'TractParser.parse',
         'scrub_aliquots', 'LotUnpacker', 'parse_aliquot']
    if q:
        for sh, cfg in enumerate(CONFIGS[:4]):
            obs.append(Ob(f'soup_plss_{sh}', 'S', ob_soup, f'PLSSDesc on token sequences, config {cfg!r}', functions=S, weight=7,
                          timeout=2400, params={'n': 3, 'toks': (0, 2, 3, 5, 6, 18, 24), 'cfgs': (cfg,), 'what': 'plss', 'cap': 2100}))
        obs.append(Ob('soup_tract', 'S', ob_soup, 'Tract on token sequences', functions=S[4:], weight=5, timeout=2400,
                      params={'n': 2, 'toks': (5, 6, 7, 8, 12, 16, 19, 20, 21, 22), 'cfgs': ('', 'clean_qq,suppress_lot_divs', 'qq_depth.1,break_halves'),
                              'what': 'tract', 'cap': 2100}))
    else:
        for sh, cfg in enumerate(CONFIGS):
            obs.append(Ob(f'soup_plss_{sh}', 'S', ob_soup, f'PLSSDesc on 3-token sequences, config {cfg!r}', functions=S, weight=9,
                          timeout=7000, params={'n': 3, 'toks': (0, 1, 2, 3, 4, 5, 6, 7, 9, 10, 13, 14, 15, 18, 23, 24), 'cfgs': (cfg,), 'what': 'plss', 'cap': 6500}))
        obs.append(Ob('soup_plss_4tok', 'S', ob_soup, 'PLSSDesc on 4-token sequences', functions=S, weight=9, timeout=7000,
                      params={'n': 4, 'toks': TOK_Q, 'cfgs': ('', 'sec_colon_cautious,segment'), 'what': 'plss', 'cap': 6500}))
        obs.append(Ob('soup_tract', 'S', ob_soup, 'Tract on token sequences', functions=S[4:], weight=8, timeout=7000,
                      params={'n': 3, 'toks': (5, 6, 7, 8, 9, 11, 12, 16, 19, 20, 21, 22), 'cfgs': ('', 'clean_qq,suppress_lot_divs', 'qq_depth.1,break_halves'),
                              'what': 'tract', 'cap': 6500}))
    for pname in ('twprge_regex', 'pp_twprge_ocr_scrub'):
        for which in ('twp', 'rge'):
            obs.append(Ob(f'unpack_twprge_{pname}_{which}', 'S', ob_unpack_twprge, f'unpack_twprge total over the {which} number class of {pname}',
                          functions=['unpack_twprge', 'ocr_scrub_alpha_to_num', 'twprge_natural_to_short'], weight=5, timeout=3000,
                          params={'pattern': pname, 'which': which, 'L': 2 if q else 3, 'cap': 2700}))
    obs.append(Ob('bad_arguments', 'S', ob_args, 'invalid arguments raise the documented exception types',
                  functions=['PLSSDesc.__init__', 'PLSSDesc.config', 'Tract.__init__', 'Tract.config', 'Config.__init__',
                             'Config.from_dict', 'unpack_twprge', 'TRS.construct_trs'], weight=1, timeout=600))
    return obs
