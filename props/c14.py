"""C14 -- re-parsing is idempotent and commit=False has no side effects."""
from typing import Optional

from engine.framework import Ob, result, violation, from_explore

PROPERTY = 'C14'
LEVEL = 'other'
FILES = ['pytrs/parser/tract/tract.py', 'pytrs/parser/tract/tract_parse.py', 'pytrs/parser/plssdesc/plssdesc.py',
         'pytrs/parser/containers/containers.py']
ASSUMPTIONS = [
    'one concrete description (duplicate lots, acreage, nonsequential ranges, warning trigger words, two section groups) '
    'and one concrete tract description; the operation sequence (kind, commit flag, keyword values) is symbolic',
    'history reference model (props/c14_ref.py): a history is equivalent to a fresh object given the accumulated config, '
    'the last committed parse, and after it the last parse_tracts plus the de-duplicated sort / filter / preprocess '
    'operations; operations with commit=False are no-ops',
]
EXPLANATION = ('CrossHair executes real PLSSDesc / Tract operation sequences whose kinds, commit flags and keyword values '
               'are symbolic; after every step the snapshot of all public attributes is compared with the snapshot '
               'before (commit=False) and at the end with the reference model applied to a fresh object.')


def _mk_desc_target(nops, init_cfgs, free_p=True, fixed_k0=None):
    from engine.xh import choose
    from pytrs.parser.plssdesc import PLSSDesc
    from props.c14_ref import TEXT, snap_desc, apply_desc, commits, reference_desc

    def run(ci, ops):
        cfg = choose(ci, init_cfgs)
        make = lambda: PLSSDesc(TEXT, config=cfg)
        d = make()
        hist = []
        for i, (k, commit, pq, cq) in enumerate(ops):
            k = fixed_k0 if (i == 0 and fixed_k0 is not None) else choose(k, range(6))
            op = (k, commit, pq, cq)
            before = snap_desc(d)
            apply_desc(d, op)
            hist.append(op)
            if not commits(op) and snap_desc(d) != before:
                return False
        return snap_desc(d) == snap_desc(reference_desc(make, hist))

    if nops == 2 and not free_p:
        def target(ci: int, k0: int, c0: bool, q0: Optional[bool], k1: int, c1: bool, q1: Optional[bool]):
            return run(ci, [(k0, c0, None, q0), (k1, c1, None, q1)])
    elif nops == 2:
        def target(ci: int, k0: int, c0: bool, p0: Optional[bool], q0: Optional[bool],
                   k1: int, c1: bool, p1: Optional[bool], q1: Optional[bool]):
            return run(ci, [(k0, c0, p0, q0), (k1, c1, p1, q1)])
    elif not free_p:
        def target(ci: int, c0: bool, q0: Optional[bool], k1: int, c1: bool, q1: Optional[bool],
                   k2: int, c2: bool, q2: Optional[bool]):
            return run(ci, [(0, c0, None, q0), (k1, c1, None, q1), (k2, c2, None, q2)])
    else:
        def target(ci: int, k0: int, c0: bool, p0: Optional[bool], q0: Optional[bool],
                   k1: int, c1: bool, p1: Optional[bool], q1: Optional[bool],
                   k2: int, c2: bool, p2: Optional[bool], q2: Optional[bool]):
            return run(ci, [(k0, c0, p0, q0), (k1, c1, p1, q1), (k2, c2, p2, q2)])
    return target


def _decode_ops(a, nops, nk, fixed_k0=None):
    ops = []
    for i in range(nops):
        k = a.get(f'k{i}', fixed_k0 if fixed_k0 is not None else 0)
        k = k if 0 <= k < nk - 1 else nk - 1
        if i == 0 and fixed_k0 is not None:
            k = fixed_k0
        ops.append([int(k), bool(a[f'c{i}']), a.get(f'p{i}'), a[f'q{i}']])
    return ops


def ob_desc_history(ob):
    from engine.xh import explore
    nops = ob.params['nops']
    cfgs = ob.params['cfgs']
    st = explore(_mk_desc_target(nops, cfgs, ob.params.get('free_p', True), ob.params.get('k0')), timeout=ob.params.get('cap', 900), max_viol=12)
    info = dict(bound=f'PLSSDesc histories of {nops} operations (parse | parse_tracts | preprocess | config assignment | sort | '
                      f'filter-drop; commit flag and two Optional[bool] keywords each), initial configs {cfgs}',
                samples=[{'ops': [['parse', 'commit=False', 'parse_qq=True'], ['parse_tracts', 'clean_qq=None']]}])

    def mk(vs):
        out = {}
        for v in vs:
            a = v['args']
            ops = _decode_ops(a, nops, 6, ob.params.get('k0'))
            ci = a['ci'] if 0 <= a['ci'] < len(cfgs) - 1 else len(cfgs) - 1
            kinds = '+'.join(str(o[0]) + ('c' if o[1] else 'n') for o in ops)
            key = 'desc-history:' + _classify_desc(ops)
            out.setdefault(key, violation(key, f'PLSSDesc(config={cfgs[ci]!r}) history {ops} [{kinds}] is not equivalent to its '
                                               f'reference / changed state without commit; {v["exc"]}', 'c14_desc',
                                          {'cfg': cfgs[ci], 'ops': ops}))
        return list(out.values())
    return from_explore(st, info, mk)


def _classify_desc(ops):
    kinds = [o[0] for o in ops]
    if 1 in kinds:
        return 'parse_tracts-accumulates-flags'
    if any(o[0] in (0, 2) and not o[1] for o in ops):
        return 'commit-false-side-effect-or-other:' + '-'.join(map(str, kinds))
    return 'other:' + '-'.join(map(str, kinds))


def _mk_tract_target(nops, init_cfgs, free_p=True, fixed_k0=None):
    from engine.xh import choose
    from pytrs.parser.tract import Tract
    from props.c14_ref import DESC, snap_tract, apply_tract, tract_commits, reference_tract

    def run(ci, ops):
        cfg = choose(ci, init_cfgs)
        make = lambda: Tract(DESC, trs='154n97w14', config=cfg)
        t = make()
        hist = []
        for i, (k, commit, pq, cq) in enumerate(ops):
            k = fixed_k0 if (i == 0 and fixed_k0 is not None) else choose(k, range(4))
            op = (k, commit, pq, cq)
            before = snap_tract(t)
            apply_tract(t, op)
            hist.append(op)
            if not tract_commits(op) and snap_tract(t) != before:
                return False
        return snap_tract(t) == snap_tract(reference_tract(make, hist))

    if nops == 2 and not free_p:
        def target(ci: int, k0: int, c0: bool, q0: Optional[bool], k1: int, c1: bool, q1: Optional[bool]):
            return run(ci, [(k0, c0, None, q0), (k1, c1, None, q1)])
    elif nops == 2:
        def target(ci: int, k0: int, c0: bool, p0: Optional[bool], q0: Optional[bool],
                   k1: int, c1: bool, p1: Optional[bool], q1: Optional[bool]):
            return run(ci, [(k0, c0, p0, q0), (k1, c1, p1, q1)])
    elif not free_p:
        def target(ci: int, c0: bool, q0: Optional[bool], k1: int, c1: bool, q1: Optional[bool],
                   k2: int, c2: bool, q2: Optional[bool]):
            return run(ci, [(0, c0, None, q0), (k1, c1, None, q1), (k2, c2, None, q2)])
    else:
        def target(ci: int, k0: int, c0: bool, p0: Optional[bool], q0: Optional[bool],
                   k1: int, c1: bool, p1: Optional[bool], q1: Optional[bool],
                   k2: int, c2: bool, p2: Optional[bool], q2: Optional[bool]):
            return run(ci, [(k0, c0, p0, q0), (k1, c1, p1, q1), (k2, c2, p2, q2)])
    return target


def ob_tract_history(ob):
    from engine.xh import explore
    nops = ob.params['nops']
    cfgs = ob.params['cfgs']
    st = explore(_mk_tract_target(nops, cfgs, ob.params.get('free_p', True), ob.params.get('k0')), timeout=ob.params.get('cap', 900), max_viol=12)
    info = dict(bound=f'Tract histories of {nops} operations (parse with keywords | plain parse | preprocess | config '
                      f'assignment; commit flag, two Optional[bool] keywords), initial configs {cfgs}',
                samples=[{'ops': [['parse', 'commit=True'], ['parse', 'commit=True']]}])

    def mk(vs):
        out = {}
        for v in vs:
            a = v['args']
            ops = _decode_ops(a, nops, 4, ob.params.get('k0'))
            ci = a['ci'] if 0 <= a['ci'] < len(cfgs) - 1 else len(cfgs) - 1
            n_commit_parse = sum(1 for o in ops if o[0] in (0, 1) and o[1])
            key = 'tract-history:' + ('reparse-accumulates-flags' if n_commit_parse >= 1 and cfgs[ci] and 'parse_qq' in cfgs[ci]
                                      or n_commit_parse >= 2 else 'other:' + '-'.join(str(o[0]) for o in ops))
            out.setdefault(key, violation(key, f'Tract(config={cfgs[ci]!r}) history {ops} is not equivalent to its reference / '
                                               f'changed state without commit; {v["exc"]}', 'c14_tract',
                                          {'cfg': cfgs[ci], 'ops': ops}))
        return list(out.values())
    return from_explore(st, info, mk)


def obligations(tier):
    q = tier == 'quick'
    FD = ['PLSSDesc.parse', 'PLSSDesc.parse_tracts', 'PLSSDesc.preprocess', 'PLSSDesc.config (setter)',
          'PLSSDesc.sort_tracts', 'PLSSDesc.filter', 'TractList.parse_tracts', 'Tract.parse', 'TractParser.__init__',
          'PLSSParser.hand_down_flags']
    FT = ['Tract.parse', 'Tract.preprocess', 'Tract.config (setter)', 'TractParser.__init__', 'TractParser.gen_flags']
    obs = [
        Ob('desc_history_2', 'S', ob_desc_history, 'PLSSDesc: histories of 2 operations', functions=FD, weight=8,
           timeout=3000, params={'nops': 2, 'cfgs': ('parse_qq',) if q else ('', 'parse_qq'), 'cap': 2700, 'free_p': not q}),
        Ob('tract_history_2', 'S', ob_tract_history, 'Tract: histories of 2 operations', functions=FT, weight=6,
           timeout=3000, params={'nops': 2, 'cfgs': ('', 'parse_qq', 'parse_qq,clean_qq'), 'cap': 2700,
                                 'free_p': not q}),
    ]
    if not q:
        for k0 in range(6):
            obs.append(Ob(f'desc_history_3_k{k0}', 'S', ob_desc_history, f'PLSSDesc: histories of 3 operations, first kind {k0}',
                          functions=FD, weight=10, timeout=7000,
                          params={'nops': 3, 'cfgs': ('parse_qq',), 'cap': 6500, 'free_p': False, 'k0': k0}))
        for k0 in range(4):
            obs.append(Ob(f'tract_history_3_k{k0}', 'S', ob_tract_history, f'Tract: histories of 3 operations, first kind {k0}',
                          functions=FT, weight=9, timeout=7000,
                          params={'nops': 3, 'cfgs': ('', 'parse_qq'), 'cap': 6500, 'free_p': False, 'k0': k0}))
    return obs
