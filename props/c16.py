"""C16 -- parsing time stays bounded on any input of ordinary size (partly reachable, see DESIGN.md)."""
import re

from engine.framework import Ob, result, violation, from_explore

PROPERTY = 'C16'
LEVEL = 'model_checking'
FILES = ['pytrs/parser/rgxlib/misc.py', 'pytrs/parser/rgxlib/sec.py', 'pytrs/parser/rgxlib/lots.py',
         'pytrs/parser/rgxlib/twprge.py', 'pytrs/parser/rgxlib/aliquots.py', 'pytrs/parser/rgxlib/warnings.py',
         'pytrs/parser/rgxlib/context_checkers.py', 'pytrs/parser/plssdesc/plss_preprocess.py',
         'pytrs/parser/tract/tract_preprocess.py', 'pytrs/parser/trs/trs.py']
ASSUMPTIONS = [
    'wall-clock of CPython\'s regex engine is not encodable; what z3 decides is the existence, in the NFA of each live '
    'pattern, of (a) an exponential-ambiguity witness with pump length <= K and (b) a chain of >= k positions looping on '
    'one character (polynomial backtracking of degree >= k-1); zero-width assertions are ignored (over-approximation)',
    'a witness counts only if the input built from it (<= 300 characters, embedded in a host description) makes the real '
    'pytrs.PLSSDesc(text, parse_qq=True) exceed 2 s in an isolated interpreter; rejected candidates are listed in evidence',
    'text growth: sub_scrubber is run by CrossHair over contract patterns with up to 3 possibly identical matches',
]
EXPLANATION = ('Engine A: z3 searches each pattern NFA for ambiguity witnesses; engine R confirms by timing the real parser; '
               'engine S bounds the text growth of the preprocessing substitution loop.')

TRACT_HOST = 'T154N-R97W Sec 14: '


def inventory():
    """every compiled pattern the parse path uses: name -> (pattern, host prefix, config)"""
    import pytrs.parser.rgxlib as R
    from pytrs.parser.trs.trs import TRS
    out = {}
    for name in sorted(dir(R)):
        v = getattr(R, name)
        if isinstance(v, re.Pattern):
            out[name] = v
    out['TRS._TRS_UNPACKER_REGEX'] = TRS._TRS_UNPACKER_REGEX
    return out


def host_for(name):
    plss = ('twprge', 'pp_twprge', 'pm_regex', 'sec_regex', 'multisec', 'no_num_sec', 'sec_twprge', 'well', 'depth',
            'including', 'less_except', 'isfa', 'through', 'intervener', 'of_the', 'lots_context')
    if name.startswith(plss):
        cfg = 'ocr_scrub' if 'ocr' in name else None
        pre = 'T154N-R97W ' if name.startswith(('sec_regex', 'multisec', 'no_num_sec', 'sec_twprge', 'intervener', 'through')) else ''
        return pre, cfg
    return TRACT_HOST, ('clean_qq' if name.endswith('_clean') else None)


def ob_pattern(ob):
    import z3  # noqa
    from engine.ambig import Amb
    from engine.rx import Unsupported, UCHARS as UCH
    from props.c16_ref import slow, MAXLEN, THRESHOLD
    name = ob.params['pattern']
    pat = inventory()[name]
    K, kchain = ob.params['K'], ob.params['kchain']
    try:
        A = Amb(pat)
    except Unsupported as e:
        return result('inconclusive', notes=[f'unsupported node {e}'])
    pre, cfg = host_for(name)
    st = {'queries': 0, 'solver_s': 0.0, 'unknown': None}
    rejected = []
    WS = ' \t\n\r'

    def search(kind, exclude_chars=()):
        """first witness of this kind that the timed replay confirms, else None"""
        excl = set()
        for attempt in range(ob.params.get('attempts', 6)):
            if kind == 'eda':
                r, dt, w = A.eda(K=K, exclude_states=excl, timeout=ob.params.get('cap', 120), exclude_chars=exclude_chars)
            else:
                r, dt, w = A.chain(k=kchain, exclude_states=excl, timeout=ob.params.get('cap', 120))
            st['queries'] += 1
            st['solver_s'] += dt
            if r == 'unknown':
                st['unknown'] = kind
                return None
            if r != 'sat':
                return None
            prefix = A.prefix_to(w['state'])
            if prefix is None:
                excl.add(w['state'])
                continue
            pumps = [w['pump']]
            if kind == 'chain':
                # a run that alternates two characters of the common class can defeat sre's single-character fast paths
                common = set(UCH)
                for q_ in w['chain']:
                    common &= set(A.nfa.ch[q_][0])
                reps = [c for c in (' ', '\n', '\t', '.', '-', ',') if c in common] or sorted(common)[:2]
                pumps += [a_ + b_ for a_ in reps[:3] for b_ in reps[:3] if a_ != b_][:4]
            dt2 = None
            for pump in pumps:
                for suffix in ('x', '~', ''):
                    room = MAXLEN - len(pre) - len(prefix) - len(suffix)
                    n = max(1, room // max(1, len(pump)))
                    text = pre + prefix + pump * n + suffix
                    is_slow, dt2 = slow(text, cfg)
                    if is_slow:
                        return dict(w, pump=pump, text=text, seconds=dt2)
            rejected.append({'kind': kind, 'group': w['group'], 'pump': w['pump'], 'prefix': prefix, 'seconds': dt2})
            excl.add(w['state'])
        return None

    # Exponential witnesses are sought by classes of pump, so that one ambiguity of a pattern does not hide another: after a
    # confirmed pump containing white space the search is repeated without white space, after one containing letters (a
    # through-word) without letters as well.  Each class is reported under its own key.
    LETTERS = ''.join(c for c in UCH if c.isalpha())
    found = []          # [(key, witness)]
    excluded = ''
    levels_run = 0
    for level in range(3):
        c = search('eda', exclude_chars=excluded)
        levels_run += 1
        if c is None:
            break
        has_ws, has_let = any(ch in WS for ch in c['pump']), any(ch in LETTERS for ch in c['pump'])
        key = f'redos:eda:{name}' if has_ws else f'redos:eda:{name}:word-pump' if has_let else f'redos:eda:{name}:punctuation-pump'
        found.append((key, c))
        if has_ws:
            excluded += WS
        elif has_let:
            excluded += LETTERS
        else:
            break
    if not found and not st['unknown']:
        c = search('chain')
        if c is not None:
            found.append((f'redos:chain:{name}', c))
    confirmed = found[0][1] if found else None
    queries, solver_s = st['queries'], st['solver_s']
    if st['unknown'] and confirmed is None:
        return result('inconclusive', notes=[f"{st['unknown']} query unknown"], queries=queries, solver_s=round(solver_s, 2))
    info = dict(queries=queries, distinct=queries, solver_s=round(solver_s, 2), states=A.nfa.n, transitions=A.nfa.n_edges(),
                bound=f'EDA pump length <= {K}; polynomial chains of >= {kchain} loops on one character; inputs <= {MAXLEN} chars',
                samples=[{'pattern': name, 'nfa_states': A.nfa.n, 'rejected_candidates': rejected[:4],
                          'confirmed': confirmed and {k: confirmed[k] for k in ('kind', 'group', 'pump', 'seconds')},
                          'eda_searches': levels_run,
                          'further_confirmed': [{'key': k_, 'pump': c_['pump'], 'group': c_['group']} for k_, c_ in found[1:]]}])
    if confirmed is None:
        return result('holds', **info)
    if st['unknown']:
        info['notes'] = [f"a further {st['unknown']} query (restricted pump alphabet) came back unknown"]

    def mk(c, key):
        return violation(
            key, f'{name}: {c["kind"]} witness (pump {c["pump"]!r}, group {c["group"]}); a {len(c["text"])}-character '
            f'description takes {"more than 8" if c["seconds"] is None else round(c["seconds"], 1)} s (threshold {THRESHOLD} s)',
            'c16_time', {'text': c['text'], 'config': cfg})
    vs = [mk(c, key) for key, c in found]
    return result('violated', violations=vs, **info)


def ob_growth(ob):
    """real plss_preprocess.sub_scrubber over a contract pattern: k <= 3 matches, possibly with identical matched text;
    the output is at most one space longer per *distinct* matched text plus the canonical rewriting."""
    from engine.xh import explore, choose, NoTracing
    import pytrs.parser.plssdesc.plss_preprocess as PP
    tokens = ('T154N-R97W', 'T154N R97W', 'T155N-R97W,')
    gd = {'T154N-R97W': dict(twpnum='154', ns='N', rgenum='97', rgenum_edgecase_rge2=None, ew='W'),
          'T154N R97W': dict(twpnum='154', ns='N', rgenum='97', rgenum_edgecase_rge2=None, ew='W'),
          'T155N-R97W,': dict(twpnum='155', ns='N', rgenum='97', rgenum_edgecase_rge2=None, ew='W')}

    class CM:
        def __init__(self, tok, start):
            self.tok, self.s = tok, start

        def group(self, g=0):
            return self.tok if g == 0 else gd[self.tok][g]

        def groupdict(self):
            return dict(gd[self.tok])

        def start(self, g=0):
            return self.s

        def end(self, g=0):
            return self.s + len(self.tok)

    class CP:
        def __init__(self, toks):
            self.toks = toks

        def finditer(self, txt, *a):
            out = []
            pos = 0
            for t in self.toks:
                i = txt.find(t, pos)
                out.append(CM(t, i))
                pos = i + len(t)
            return iter(out)

    def target(k: int, t0: int, t1: int, t2: int):
        k = choose(k, (1, 2, 3))
        toks = [choose(t, tokens) for t in (t0, t1, t2)][:k]
        txt = ' Sec 1: NE/4\n'.join(toks) + ' Sec 9: ALL'
        out = PP.sub_scrubber(CP(toks), txt, 'n', 'w')
        return len(out) <= len(txt) + 2 * k

    st = explore(target, timeout=300, max_viol=3)
    info = dict(bound='1..3 matches drawn from 3 matched texts (repeats allowed)', samples=[{'tokens': tokens}])

    def mk(vs):
        out = []
        for v in vs:
            a = v['args']
            k = (1, 2, 3)[a['k'] if 0 <= a['k'] < 2 else 2]
            out.append(violation('growth:sub_scrubber', f'sub_scrubber output grows super-linearly for {k} repeated matches; {v["exc"]}',
                                 'c16_time', {'text': '\n'.join('T154N-R97W Sec %d: NE/4' % (i + 1) for i in range(12)), 'config': None}))
        return out
    return from_explore(st, info, mk)


def obligations(tier):
    q = tier == 'quick'
    obs = []
    for name, pat in inventory().items():
        obs.append(Ob(f'pattern_{name}', 'A', ob_pattern, f'ambiguity witnesses in {name}', functions=[name], weight=3,
                      timeout=1500, params={'pattern': name, 'K': 3 if q else 6, 'kchain': 4, 'attempts': 4 if q else 10,
                                            'cap': 60 if q else 300}))
    obs.append(Ob('growth_sub_scrubber', 'S', ob_growth, 'text growth of plss_preprocess.sub_scrubber', weight=1,
                  functions=['plss_preprocess.sub_scrubber', 'unpack_twprge'], timeout=900))
    return obs
