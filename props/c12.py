"""C12 -- the Twp/Rge/Sec standard form is canonical, round-trips, and is strict."""
import os
import time

from engine.framework import Ob, result, violation

PROPERTY = 'C12'
LEVEL = 'model_checking'
FILES = ['pytrs/parser/trs/trs.py', 'pytrs/parser/config/master_config.py']
ASSUMPTIONS = [
    'alphabet: printable ASCII + \\t\\n\\r + the five non-ASCII characters used by the patterns; other Unicode is outside the claim',
    'strings handed to TRS() are modelled after str.lower(): the symbolic text ranges over the alphabet without A-Z',
    'the pattern method used by trs_to_dict (search/match/fullmatch) is recorded by calling the real function once '
    'with a recording proxy installed as TRS._TRS_UNPACKER_REGEX; the rest of the obligation follows that method',
    'S harnesses run with TRS._USE_CACHE off (the cache is the subject of C15)',
]
EXPLANATION = ('Strictness and round trip are decided by z3 on an exact bounded encoding (engine M) and on the regular '
               'language (engine Z, unbounded length) of the live TRS._TRS_UNPACKER_REGEX object; construct_trs / '
               'trs_to_dict glue is explored path-by-path by CrossHair on the real functions.')


# ------------------------------------------------------------------ helpers
def recorded_method():
    """which method of the unpacker pattern does the real trs_to_dict call?"""
    from pytrs.parser.trs.trs import TRS
    real = TRS._TRS_UNPACKER_REGEX
    calls = []

    class Proxy:
        def __getattr__(self, name):
            attr = getattr(real, name)
            if name in ('search', 'match', 'fullmatch', 'finditer', 'findall'):
                def rec(*a, **k):
                    calls.append(name)
                    return attr(*a, **k)
                return rec
            return attr

    TRS._TRS_UNPACKER_REGEX = Proxy()
    try:
        TRS.trs_to_dict('154n97w14')
    finally:
        TRS._TRS_UNPACKER_REGEX = real
    if len(calls) != 1 or calls[0] not in ('search', 'match', 'fullmatch'):
        raise RuntimeError(f'cannot determine unpacker method: {calls}')
    return calls[0]


LOWER_ALPHA = None


def lower_alphabet():
    from engine.rx import UCHARS
    return [c for c in UCHARS if not ('A' <= c <= 'Z')]


def _spec_re():
    """z3 Re of the standard form after lower(): digits{1,3}[ns] | ___z | xxxz (lower-cased error placeholder)"""
    import z3
    D = z3.Range('0', '9')
    twp = z3.Union(z3.Concat(z3.Loop(D, 1, 3), z3.Union(z3.Re('n'), z3.Re('s'))), z3.Re('___z'), z3.Re('xxxz'))
    rge = z3.Union(z3.Concat(z3.Loop(D, 1, 3), z3.Union(z3.Re('e'), z3.Re('w'))), z3.Re('___z'), z3.Re('xxxz'))
    sec = z3.Union(z3.Loop(D, 2, 2), z3.Re('__'), z3.Re('xx'))
    return twp, rge, sec


# ------------------------------------------------------------------ Z: strictness, unbounded length
def _mandatory_sec_re(pat):
    """z3 Re of the unpacker pattern with its trailing optional `sec` group made mandatory (a result without an
    error component needs a participating section group)."""
    from engine import rx
    tree = list(rx.parse(pat))
    gi = pat.groupindex.get('sec')
    if tree and tree[-1][0] is rx.MAX_REPEAT:
        lo, hi, sub = tree[-1][1]
        sub = list(sub)
        if (lo, hi) == (0, 1) and len(sub) == 1 and sub[0][0] is rx.SUBPATTERN and sub[0][1][0] == gi:
            tree = tree[:-1] + sub
    skipped = []
    return rx.to_re(tree, pat.flags, skipped), skipped


def ob_z_strict(ob):
    import z3
    from engine import rx
    from pytrs.parser.trs.trs import TRS
    from props.replay_defs import c12_strict
    method = recorded_method()
    pat = TRS._TRS_UNPACKER_REGEX
    L, skipped = _mandatory_sec_re(pat)
    if skipped:
        return result('inconclusive', notes=[f'zero-width nodes in unpacker pattern: {skipped}'])
    sig = rx.z3_charset(lower_alphabet())
    S = z3.Star(sig)
    acc = {'search': z3.Concat(S, L, S), 'match': z3.Concat(L, S), 'fullmatch': L}[method]
    twp, rge, sec = _spec_re()
    spec = z3.Concat(twp, rge, sec)
    s = z3.String('s')
    t0 = time.time()
    sol = z3.Solver()
    sol.set('timeout', 60000)
    sol.add(z3.InRe(s, acc), z3.InRe(s, S))
    twin = str(sol.check())
    q = 1
    sol = z3.Solver()
    sol.set('timeout', 120000)
    sol.add(z3.InRe(s, acc), z3.InRe(s, S), z3.Not(z3.InRe(s, spec)))
    tried = []
    verdict = None
    while True:
        r = str(sol.check())
        q += 1
        if r != 'sat':
            break
        w = _z3_unescape(sol.model().eval(s).as_string())
        bad, obs = c12_strict(w)     # the language query ignores which match Python picks: confirm on the real code
        tried.append((w, bad))
        if bad or len(tried) >= 8:
            break
        sol.add(s != z3.StringVal(w))
    dt = time.time() - t0
    base = dict(queries=q, distinct=q - 1, solver_s=round(dt, 3), bound=f'unbounded length; method={method}',
                samples=[{'query': f'accepted({method}) over the lower-cased alphabet with a section, minus the '
                                   f'standard-form grammar', 'answer': r, 'candidates_tried': tried}])
    if twin != 'sat':
        return result('error', notes=['vacuity twin not sat: ' + twin], **base)
    if r == 'unsat':
        return result('holds', **base)
    if r != 'sat':
        return result('inconclusive', notes=[r], **base)
    if not tried[-1][1]:
        return result('inconclusive', notes=['language-level candidates exist but none reproduced on the real code '
                                             '(leftmost-match semantics); see m_strict for the exact verdict'], **base)
    w = tried[-1][0]
    return result('violated', violations=[violation(
        f'trs-unpacker-not-anchored:{method}',
        f'TRS({w!r}) is decomposed although {w!r} is not in the standard form (pattern method {method!r})',
        'c12_strict', {'s': w})], **base)


def _z3_unescape(w):
    import re as _re
    return _re.sub(r'\\u\{([0-9a-fA-F]+)\}', lambda m: chr(int(m.group(1), 16)), w)


# ------------------------------------------------------------------ M: strictness, exact, bounded
def ob_m_strict(ob):
    import z3
    from engine.matcher import Text, Matcher, inset, validate, model_match
    from pytrs.parser.trs.trs import TRS
    N = ob.params['N']
    method = recorded_method()
    pat = TRS._TRS_UNPACKER_REGEX
    vs = ['154n97w14', '1154n97w14', '154n97w100', 'x154n97w14', '___z___z__', '___z97w14', '154n___z__', '1s2e03',
          '154n97w', '', 'zz', '154n97w1', '00n00e00', '999s999e99x', '9n9n9e99', '154n97w1_']
    ag, tot, bad = validate(pat, vs, N, mode=method)
    if bad:
        return result('error', notes=[f'translator validation: {bad[:3]}'], validated=tot)
    T = Text(N)
    M = Matcher(pat, T, mode=method)
    base = T.wf(lower_alphabet()) + M.cons
    gi = pat.groupindex
    so, sc = M.span('sec')
    sol = z3.Solver()
    sol.set('timeout', ob.params.get('cap', 120) * 1000)
    sol.add(*base)
    t0 = time.time()
    q = 0
    sol.push()
    sol.add(M.matched, so >= 0)
    twin = str(sol.check())
    q += 1
    sol.pop()
    if twin != 'sat':
        return result('error', notes=['vacuity twin: ' + twin], validated=tot, queries=q)
    # violation: a match with a participating section group that does not span the whole (non-empty) string:
    # trs_to_dict then returns a valid-looking TRS for a string that is not in the standard form.
    sol.push()
    to, _ = M.span('twp')
    ro, _ = M.span('rge')
    sol.add(M.matched, so >= 0, T.L > 0, z3.Or(M.startv != 0, M.endv != T.L),
            T.at(to) != ord('x'), T.at(ro) != ord('x'), T.at(so) != ord('x'))
    r = str(sol.check())
    q += 1
    dt = time.time() - t0
    info = dict(queries=q, distinct=1, solver_s=round(dt, 2), validated=tot, states=M.n_states,
                transitions=M.n_transitions, bound=f'all strings of length <= {N} over the lower-cased alphabet; '
                                                   f'method={method}',
                samples=[{'query': 'matched and sec group participates and span != whole string', 'answer': r}])
    if r == 'unsat':
        return result('holds', **info)
    if r != 'sat':
        return result('inconclusive', notes=[r], **info)
    w = T.value(sol.model())
    return result('violated', violations=[violation(
        f'trs-unpacker-not-anchored:{method}',
        f'TRS({w!r}) yields a valid-looking Twp/Rge/Sec although {w!r} is not in the standard form',
        'c12_strict', {'s': w})], **info)


# ------------------------------------------------------------------ M: round trip of canonical strings
def ob_m_roundtrip(ob):
    import z3
    from engine.matcher import Text, Matcher, inset
    from pytrs.parser.trs.trs import TRS
    N = 11
    method = recorded_method()
    pat = TRS._TRS_UNPACKER_REGEX
    T = Text(N)
    M = Matcher(pat, T, mode=method)
    b = [z3.Int(f'b{i}') for i in range(6)]  # twpnum_end, twp_end, rgenum_end, rge_end, sec_end
    tk, rk, sk = z3.Int('tk'), z3.Int('rk'), z3.Int('sk')  # 0 = number, 1 = undefined placeholder, 2 = error placeholder
    cons = T.wf(lower_alphabet()) + M.cons
    D = '0123456789'

    def lit(lo, w):
        return z3.And(*[T.at(lo + k) == ord(ch) for k, ch in enumerate(w)])

    def digits(lo, hi):
        return z3.And(*[z3.Implies(z3.And(lo <= i, i < hi), inset(T.c[i], D)) for i in range(N)])

    t_end, r_end, s_end = b[1], b[3], b[4]
    cons += [
        tk >= 0, tk <= 2, rk >= 0, rk <= 2, sk >= 0, sk <= 2,
        z3.If(tk == 1, z3.And(t_end == 4, lit(0, '___z')),
              z3.If(tk == 2, z3.And(t_end == 4, lit(0, 'xxxz')),
                    z3.And(b[0] >= 1, b[0] <= 3, t_end == b[0] + 1, digits(0, b[0]), inset(T.at(b[0]), 'ns')))),
        z3.If(rk == 1, z3.And(r_end == t_end + 4, lit(t_end, '___z')),
              z3.If(rk == 2, z3.And(r_end == t_end + 4, lit(t_end, 'xxxz')),
                    z3.And(b[2] >= t_end + 1, b[2] <= t_end + 3, r_end == b[2] + 1, digits(t_end, b[2]),
                           inset(T.at(b[2]), 'ew')))),
        s_end == r_end + 2,
        z3.If(sk == 1, lit(r_end, '__'), z3.If(sk == 2, lit(r_end, 'xx'), digits(r_end, s_end))),
        T.L == s_end,
    ]
    to, tc = M.span('twp')
    ro, rc = M.span('rge')
    so, sc = M.span('sec')
    tno, tnc = M.span('twp_num')
    nso, nsc = M.span('ns')
    rno, rnc = M.span('rge_num')
    ewo, ewc = M.span('ew')
    good = z3.And(
        M.matched, M.startv == 0, M.endv == T.L, to == 0, tc == t_end, ro == t_end, rc == r_end, so == r_end,
        sc == s_end,
        z3.If(tk != 0, z3.And(tno == -1, nso == -1), z3.And(tno == 0, tnc == b[0], nso == b[0], nsc == t_end)),
        z3.If(rk != 0, z3.And(rno == -1, ewo == -1), z3.And(rno == t_end, rnc == b[2], ewo == b[2], ewc == r_end)))
    sol = z3.Solver()
    sol.set('timeout', 180000)
    sol.add(*cons)
    t0 = time.time()
    twin = str(sol.check())
    sample = T.value(sol.model()) if twin == 'sat' else None
    sol.add(z3.Not(good))
    r = str(sol.check())
    dt = time.time() - t0
    info = dict(queries=2, distinct=1, solver_s=round(dt, 2), states=M.n_states, transitions=M.n_transitions,
                bound='every string of the standard form (1-3 digit twp+n/s | ___z | xxxz, 1-3 digit rge+e/w | ___z | xxxz, '
                      '2-digit sec | __ | xx), lower case',
                samples=[{'template_instance': sample, 'obligation': 'groups == template segments', 'answer': r}])
    if twin != 'sat':
        return result('error', notes=['twin ' + twin], **info)
    if r == 'unsat':
        return result('holds', **info)
    if r != 'sat':
        return result('inconclusive', notes=[r], **info)
    w = T.value(sol.model())
    return result('violated', violations=[violation(
        'trs-roundtrip-groups', f'standard-form string {w!r} is not decomposed into its own components',
        'c12_roundtrip', {'s': w})], **info)


# ------------------------------------------------------------------ S: construct_trs / from_twprgesec / TRS attrs
def _pick(idx, seq):
    for i, v in enumerate(seq):
        if idx == i:
            return v
    raise AssertionError


def _values(tier, which):
    if which == 'sec':
        return (0, 7, 10, 99) if tier == 'quick' else tuple(range(100))
    return (0, 7, 97, 154, 999) if tier == 'quick' else (0, 1, 2, 9, 10, 97, 99, 100, 154, 999)


def ob_s_construct(ob):
    """sweep one component over kinds x values x letters x defaults with the other two on a small set"""
    from engine.xh import explore, IgnoreAttempt, NoTracing
    from spec import trs_spec as SP
    from pytrs.parser.trs.trs import TRS
    from pytrs.parser.config import MasterConfig
    comp = ob.params['component']
    vals = ob.params['values']
    fixed_tr = ((0, 154), (2, 7), (4, 0), (6, 0))     # (kind, number)
    fixed_sec = ((0, 14), (1, 5), (3, 0), (5, 0))
    samples = []
    nfix = ob.params.get('nfix', 4)

    def target(k: int, vi: int, li: int, di: int, mi: int, o1: int, o2: int):
        if comp == 'sec':
            nk = len(SP.SEC_KINDS)
        else:
            nk = len(SP.TR_KINDS)
        if not (0 <= k < nk and 0 <= vi < len(vals) and 0 <= li < 2 and 0 <= di < 5 and 0 <= mi < 2
                and 0 <= o1 < 4 and 0 <= o2 < 4):
            raise IgnoreAttempt
        if comp == 'sec' and (li or di or mi):
            raise IgnoreAttempt
        if not (0 <= o1 < nfix and 0 <= o2 < nfix):
            raise IgnoreAttempt
        if comp != 'sec':
            if k not in (2, 3) and li:          # the direction letter only exists in the two 'digits+dir' kinds
                raise IgnoreAttempt
            if k in (4, 5, 6) and vi:           # none / empty / garbage carry no number
                raise IgnoreAttempt
        elif k in (3, 4, 5) and vi:
            raise IgnoreAttempt
        k = _pick(k, range(nk)); v = _pick(vi, vals); li = _pick(li, (0, 1)); di = _pick(di, range(5))
        mi = _pick(mi, (0, 1)); o1 = _pick(o1, range(4)); o2 = _pick(o2, range(4))
        with NoTracing():
            if comp == 'twp':
                tk, tn, tl = k, v, 'ns'[li]
                (rk, rn), rl = fixed_tr[o1], 'e'
                sk, sn = fixed_sec[o2]
                dns, dew = SP.DEFAULTS[di], None
                mns, mew = 'ns'[mi], 'w'
            elif comp == 'rge':
                rk, rn, rl = k, v, 'ew'[li]
                (tk, tn), tl = fixed_tr[o1], 's'
                sk, sn = fixed_sec[o2]
                dns, dew = None, SP.DEFAULTS_EW[di]
                mns, mew = 'n', 'ew'[mi]
            else:
                sk, sn = k, v
                (tk, tn), tl = fixed_tr[o1], 'n'
                (rk, rn), rl = fixed_tr[o2], 'w'
                dns = dew = None
                mns, mew = 'n', 'w'
            twp = SP.render_tr_input(tk, tn, tl)
            rge = SP.render_tr_input(rk, rn, rl)
            sec = SP.render_sec_input(sk, sn)
            exp = (SP.expect_tr(tk, tn, tl, dns, mns, SP.ERR_TWP, SP.UNDEF_TWP)
                   + SP.expect_tr(rk, rn, rl, dew, mew, SP.ERR_RGE, SP.UNDEF_RGE) + SP.expect_sec(sk, sn))
            if len(samples) < 4:
                samples.append({'twp': twp, 'rge': rge, 'sec': sec, 'default_ns': dns, 'default_ew': dew,
                                'master': (mns, mew), 'expected': exp})
        save = (MasterConfig.default_ns, MasterConfig.default_ew, TRS._USE_CACHE)
        MasterConfig.default_ns, MasterConfig.default_ew, TRS._USE_CACHE = mns, mew, False
        try:
            got = TRS.construct_trs(twp, rge, sec, dns, dew)
            if got != exp:
                return False
            t = TRS.from_twprgesec(twp, rge, sec, dns, dew)
            d = SP.decompose(exp)
            if t.trs != exp:
                return False     # component-wise error/undefined must be kept
            for a in ('twp', 'rge', 'sec', 'twprge', 'twp_num', 'twp_ns', 'rge_num', 'rge_ew', 'sec_num',
                      'twp_undef', 'rge_undef', 'sec_undef'):
                if getattr(t, a) != d[a]:
                    return False
            t2 = TRS(t.trs)
            if not (t2 == t and hash(t2) == hash(t) and t2.trs == t.trs):
                return False
            if TRS(exp.upper() if exp[0].isdigit() and exp[-1].isdigit() and 'z' not in exp else exp).trs != exp:
                return False
            return True
        finally:
            MasterConfig.default_ns, MasterConfig.default_ew, TRS._USE_CACHE = save

    st = explore(target, timeout=ob.params.get('cap', 240), max_viol=6)
    info = dict(paths=st['paths'], distinct=st['paths'], samples=samples, notes=[f"ignored={st['ignored']}"],
                bound=f"{comp}: all input kinds x values {list(vals)[:12]}{'...' if len(vals) > 12 else ''} x "
                      f"direction letters x 5 default spellings x 2 MasterConfig values; other components from 4 "
                      f"fixed (kind,value) pairs each")
    if st['verdict'] == 'holds':
        return result('holds', **info)
    if st['verdict'] == 'inconclusive':
        return result('inconclusive', notes=[str(st.get('driver_error', 'not exhausted'))], **info)
    from spec import trs_spec as SP2
    viols = []
    for v in st['violations']:
        a = v['args']
        k, vi, li, di, mi, o1, o2 = (a[x] for x in ('k', 'vi', 'li', 'di', 'mi', 'o1', 'o2'))
        vv = vals[vi]
        if comp == 'twp':
            args = dict(tk=k, tn=vv, tl='ns'[li], rk=fixed_tr[o1][0], rn=fixed_tr[o1][1], rl='e',
                        sk=fixed_sec[o2][0], sn=fixed_sec[o2][1], dns=SP2.DEFAULTS[di], dew=None, mns='ns'[mi], mew='w')
        elif comp == 'rge':
            args = dict(rk=k, rn=vv, rl='ew'[li], tk=fixed_tr[o1][0], tn=fixed_tr[o1][1], tl='s',
                        sk=fixed_sec[o2][0], sn=fixed_sec[o2][1], dns=None, dew=SP2.DEFAULTS_EW[di], mns='n',
                        mew='ew'[mi])
        else:
            args = dict(sk=k, sn=vv, tk=fixed_tr[o1][0], tn=fixed_tr[o1][1], tl='n', rk=fixed_tr[o2][0],
                        rn=fixed_tr[o2][1], rl='w', dns=None, dew=None, mns='n', mew='w')
        kinds = (SP2.TR_KINDS[args['tk']], SP2.TR_KINDS[args['rk']], SP2.SEC_KINDS[args['sk']])
        key = 'construct-trs:' + _classify(kinds)
        viols.append(violation(key, f'construct_trs/TRS disagree with the standard form for input kinds {kinds} '
                                    f'({args}) exc={v["exc"]}', 'c12_construct', args))
    return result('violated', violations=viols, **info)


def _classify(kinds):
    bad_tr = {'garbage', 'four-digit'}
    if kinds[0] in bad_tr or kinds[1] in bad_tr:
        return 'error-twp-or-rge-loses-other-components'
    return 'valid-inputs:' + '/'.join(kinds)


# ------------------------------------------------------------------ S: trs_to_dict glue over contract match
def ob_s_dict_glue(ob):
    """real trs_to_dict with the unpacker replaced by a contract pattern whose groups are symbolic choices:
    decomposition consistent with the groups, trs rebuilt from parts, absent section -> error section."""
    from engine.xh import explore, IgnoreAttempt, NoTracing
    from pytrs.parser.trs.trs import TRS
    from spec import trs_spec as SP
    nums = ('07', '154') if ob.params.get('small') else ('7', '07', '154', '999')

    class CM:
        def __init__(self, g):
            self.g = g

        def group(self, name):
            return self.g[name]

        def __getitem__(self, name):
            return self.g[name]

        def groupdict(self):
            return dict(self.g)

    class CP:
        def __init__(self, g):
            self.g = g

        def _m(self, *a, **k):
            return None if self.g is None else CM(self.g)

        search = match = fullmatch = _m

    def target(tk: int, ti: int, tl: int, rk: int, ri: int, rl: int, sk: int, si: int):
        if not (0 <= tk < 3 and 0 <= rk < 3 and 0 <= sk < 4 and 0 <= ti < len(nums) and 0 <= ri < len(nums) and 0 <= si < 3
                and 0 <= tl < 2 and 0 <= rl < 2):
            raise IgnoreAttempt
        if (tk != 0 and (ti or tl)) or (rk != 0 and (ri or rl)) or (sk != 0 and si):
            raise IgnoreAttempt
        tk = _pick(tk, range(3)); rk = _pick(rk, range(3)); sk = _pick(sk, range(4))
        ti = _pick(ti, range(len(nums))); ri = _pick(ri, range(len(nums))); si = _pick(si, range(3))
        tl = _pick(tl, range(2)); rl = _pick(rl, range(2))
        with NoTracing():
            g = {}
            if tk == 0:
                g.update(twp=nums[ti] + 'ns'[tl], twp_num=nums[ti], ns='ns'[tl]); et = nums[ti] + 'ns'[tl]
            else:
                g.update(twp=(SP.UNDEF_TWP if tk == 1 else SP.ERR_TWP), twp_num=None, ns=None); et = g['twp']
            if rk == 0:
                g.update(rge=nums[ri] + 'ew'[rl], rge_num=nums[ri], ew='ew'[rl]); er = nums[ri] + 'ew'[rl]
            else:
                g.update(rge=(SP.UNDEF_RGE if rk == 1 else SP.ERR_RGE), rge_num=None, ew=None); er = g['rge']
            secs = ('00', '14', '99')
            g['sec'] = (secs[si], SP.UNDEF_SEC, SP.ERR_SEC, None)[sk]
            es = SP.ERR_SEC if g['sec'] is None else g['sec']
        real = TRS._TRS_UNPACKER_REGEX
        TRS._TRS_UNPACKER_REGEX = CP(g)
        try:
            d = TRS.trs_to_dict('anything')
        finally:
            TRS._TRS_UNPACKER_REGEX = real
        if d['trs'] != et + er + es or d['twp'] != et or d['rge'] != er or d['sec'] != es:
            return False
        if d['twp_num'] != (int(nums[ti]) if tk == 0 else None) or d['twp_ns'] != ('ns'[tl] if tk == 0 else None):
            return False
        if d['rge_num'] != (int(nums[ri]) if rk == 0 else None) or d['rge_ew'] != ('ew'[rl] if rk == 0 else None):
            return False
        if d['sec_num'] != (int(secs[si]) if sk == 0 else None):
            return False
        if d['twp_undef'] != (tk == 1) or d['rge_undef'] != (rk == 1) or d['sec_undef'] != (sk == 1):
            return False
        return True

    st = explore(target, timeout=ob.params.get('cap', 240), max_viol=3)
    info = dict(paths=st['paths'], distinct=st['paths'], notes=[f"ignored={st['ignored']}"],
                bound='groups: twp/rge in {number x direction, undefined, error}, sec in {3 numbers, undefined, error, absent}',
                samples=[{'groups': "twp='154n', rge='___z', sec=None", 'expected_trs': '154n___zXX'}],
                assumptions=['contract: the unpacker match exposes named groups twp, twp_num, ns, rge, rge_num, ew, sec '
                             '(discharged by obligation m_roundtrip on the real pattern)'])
    if st['verdict'] == 'holds':
        return result('holds', **info)
    if st['verdict'] == 'inconclusive':
        return result('inconclusive', notes=[str(st.get('driver_error', 'not exhausted'))], **info)
    # glue-level counterexamples are replayed through the public API on the nearest real string
    viols = []
    for v in st['violations']:
        a = v['args']
        s = ((nums[a['ti']] + 'ns'[a['tl']]) if a['tk'] == 0 else (SP.UNDEF_TWP, SP.UNDEF_TWP, SP.ERR_TWP)[a['tk']]) + \
            ((nums[a['ri']] + 'ew'[a['rl']]) if a['rk'] == 0 else (SP.UNDEF_RGE, SP.UNDEF_RGE, SP.ERR_RGE)[a['rk']]) + \
            (('00', '14', '99')[a['si']], SP.UNDEF_SEC, SP.ERR_SEC, '')[a['sk']]
        viols.append(violation('trs-to-dict-glue', f'trs_to_dict decomposition inconsistent for groups of {s!r} '
                                                   f'exc={v["exc"]}', 'c12_roundtrip', {'s': s}))
    return result('violated', violations=viols, **info)


def obligations(tier):
    q = tier == 'quick'
    obs = [
        Ob('z_strict', 'Z', ob_z_strict, 'language accepted by trs_to_dict is within the standard form (unbounded length)',
           functions=['TRS._TRS_UNPACKER_REGEX', 'TRS.trs_to_dict'], weight=1, timeout=300),
        Ob('m_strict', 'M', ob_m_strict, 'no string yields a valid-looking TRS unless it is exactly standard (exact matcher)',
           functions=['TRS._TRS_UNPACKER_REGEX', 'TRS.trs_to_dict'], weight=3, timeout=600,
           params={'N': 12 if q else 16, 'cap': 120 if q else 400}),
        Ob('m_roundtrip', 'M', ob_m_roundtrip, 'every standard-form string is matched whole with groups == its components',
           functions=['TRS._TRS_UNPACKER_REGEX'], weight=3, timeout=600),
        Ob('s_dict_glue', 'S', ob_s_dict_glue, 'trs_to_dict glue over contract groups',
           functions=['TRS.trs_to_dict'], weight=2, timeout=900, params={'small': q, 'cap': 240 if q else 800}),
    ]
    for comp in ('twp', 'rge', 'sec'):
        vals = _values(tier, comp)
        if tier == 'thorough' and comp != 'sec':
            # full sweep 0..999 in 8 shards
            for sh in range(8):
                vs = tuple(range(sh * 125, (sh + 1) * 125))
                obs.append(Ob(f's_construct_{comp}_{sh}', 'S', ob_s_construct, f'construct_trs sweep {comp} shard {sh}',
                              functions=['TRS.construct_trs', 'TRS.from_twprgesec', 'TRS.trs (setter)', 'TRS.__eq__',
                                         'TRS.__hash__'], weight=8, timeout=3000,
                              params={'component': comp, 'values': vs, 'cap': 2800, 'nfix': 2}))
        else:
            obs.append(Ob(f's_construct_{comp}', 'S', ob_s_construct, f'construct_trs sweep {comp}',
                          functions=['TRS.construct_trs', 'TRS.from_twprgesec', 'TRS.trs (setter)', 'TRS.__eq__',
                                     'TRS.__hash__'], weight=6, timeout=1500,
                          params={'component': comp, 'values': vals, 'cap': 600 if q else 1400, 'nfix': 2 if q else 4}))
    return obs
