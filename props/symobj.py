"""symobj.py -- Tract / TRS stand-ins whose Twp/Rge/Sec attributes are (possibly symbolic) values handed in by an
S harness.  They are real subclasses (isinstance checks in the containers pass) that bypass __init__, so the container
code under test runs unmodified on them."""
from pytrs.parser.tract import Tract
from pytrs.parser.trs import TRS


class SymTRS(TRS):
    def __init__(self, twp_num, twp_ns, rge_num, rge_ew, sec_num, tag, trs_str=None):
        self._f = dict(twp_num=twp_num, twp_ns=twp_ns, rge_num=rge_num, rge_ew=rge_ew, sec_num=sec_num)
        self.tag = tag
        self._trs_str = trs_str if trs_str is not None else 'tag%d' % tag

    twp_num = property(lambda s: s._f['twp_num'])
    twp_ns = property(lambda s: s._f['twp_ns'])
    ns = twp_ns
    rge_num = property(lambda s: s._f['rge_num'])
    rge_ew = property(lambda s: s._f['rge_ew'])
    ew = rge_ew
    sec_num = property(lambda s: s._f['sec_num'])
    trs = property(lambda s: s._trs_str)

    def __eq__(self, other):
        return isinstance(other, TRS) and self.trs == other.trs

    def __hash__(self):
        return hash(self._trs_str)


class SymTract(Tract):
    def __init__(self, uid, trsobj, tag, **attrs):
        self._Tract__uid = uid
        self._t = trsobj
        self.tag = tag
        self.lots = []
        self.qqs = []
        self.w_flags = []
        self.e_flags = []
        self.w_flag_lines = []
        self.e_flag_lines = []
        self.lot_acres = {}
        self.aliquots_whole = []
        self.desc = 'd%d' % tag
        self.pp_desc = 'd%d' % tag
        self.orig_desc = 'orig'
        self.source = None
        self.orig_index = tag
        self.parse_complete = True
        for k, v in attrs.items():
            setattr(self, k, v)

    twp_num = property(lambda s: s._t.twp_num)
    twp_ns = property(lambda s: s._t.twp_ns)
    rge_num = property(lambda s: s._t.rge_num)
    rge_ew = property(lambda s: s._t.rge_ew)
    sec_num = property(lambda s: s._t.sec_num)
    trs = property(lambda s: s._t.trs)
    twp = property(lambda s: s._t.twp_num if s._t.twp_num is None else (s._t.twp_num, s._t.twp_ns))
    rge = property(lambda s: s._t.rge_num if s._t.rge_num is None else (s._t.rge_num, s._t.rge_ew))
    sec = property(lambda s: s._t.sec_num)
    twprge = property(lambda s: (s.twp, s.rge))
