"""C09 -- every tract is well-formed and traceable to its source."""
from engine.framework import Ob, result, violation, from_explore

PROPERTY = 'C09'
LEVEL = 'other'
FILES = ['pytrs/parser/plssdesc/plss_parse.py', 'pytrs/parser/trs/trs.py', 'pytrs/parser/tract/tract.py']
ASSUMPTIONS = [
    'provenance-document harness shared with C03 (contract finder patterns); sections written with 1, 2 or 3 digits; document '
    'shape and parse mode symbolic',
    'the decomposition of the Twp/Rge/Sec string is compared with spec/trs_spec.py (independent statement of the standard form)',
]
EXPLANATION = ('CrossHair explores the real construct_tracts / get_next_twprge / get_next_sec / Tract / TRS code on the bounded '
               'document family; on each path every tract must have a standard-or-error (never undefined) Twp/Rge/Sec whose '
               'attributes are its decomposition, the complete original text, the parent\'s source tag and its creation index.')


def tract_verdict(tracts, orig_text, source):
    from spec import trs_spec as SP
    for i, t in enumerate(tracts):
        trs = t.trs
        if not SP.is_standard(trs):
            return f'malformed: tract {i} has Twp/Rge/Sec {trs!r}, which is not in the standard form'
        d = SP.decompose(trs)
        if d['twp_undef'] or d['rge_undef'] or d['sec_undef']:
            return f'undefined: tract {i} has the undefined placeholder in {trs!r}'
        for a in ('twp', 'rge', 'sec', 'twp_num', 'twp_ns', 'rge_num', 'rge_ew', 'sec_num', 'twprge'):
            if getattr(t, a) != d[a]:
                return f'decomposition: tract {i} ({trs!r}).{a} is {getattr(t, a)!r}, expected {d[a]!r}'
        if t.orig_index != i:
            return f'index: tract {i} has orig_index {t.orig_index}'
        if t.orig_desc != orig_text:
            return f'orig_desc: tract {i} does not record the complete original text'
        if t.source != source:
            return f'source: tract {i} has source {t.source!r}'
    return None


def ob_glue(ob):
    from engine.xh import explore
    from props import plss_abs as P
    from props.c10 import mode_cfg
    mmax, fill, modes = ob.params['mmax'], ob.params['fill'], ob.params['modes']

    def oracle(doc, mode, parser, exc):
        if exc is not None:
            return True
        if tract_verdict(parser.tracts, doc.string, 'SRC') is not None:
            return False
        # every tract's Twp/Rge and section come from the document's segments (or are the error placeholders)
        trs_ok = {s.data['twprge'] for s in doc.segs if s.kind == 'TR'} | {'XXXzXXXz'}
        secs_ok = {x for s in doc.segs if s.kind == 'SEC' for x in s.data['secs']} | {'XX'}
        for t in parser.tracts:
            if t.trs == 'XXXzXXXzXX':
                continue
            if t.twprge not in trs_ok or t.sec not in secs_ok:
                return False
        return True

    st = explore(P.make_target(mmax, fill, modes, oracle), timeout=ob.params.get('cap', 900), max_viol=6)
    info = dict(bound=f'documents of 0..{mmax} segments x fillers {[P.FILLERS[f] for f in fill]} x modes {modes}',
                samples=[{'doc': 'T150N-R90W Sec 11: NE/4 Sec 112: W/2', 'mode': modes[0]}])

    def mk(vs):
        out = {}
        for v in vs:
            variants, fillers, mode = P.decode(v['args'], mmax, fill, modes)
            doc = P.build_doc(variants, fillers)
            cfg = mode_cfg(mode)
            try:
                why = tract_verdict(P.run_parser(doc, mode).tracts, doc.string, 'SRC') or 'foreign: a tract names a Twp/Rge or section that is not in the text'
            except Exception as e:  # noqa
                why = repr(e)
            key = 'tract:' + why.split(':')[0]
            out.setdefault(key, violation(key, f'PLSSDesc({doc.string!r}, config={cfg!r}): {why}', 'c09_tracts',
                                          {'text': doc.string, 'config': cfg}))
        return list(out.values())
    return from_explore(st, info, mk)


def ob_tract_props(ob):
    """Tract(desc, trs=s): the properties are the decomposition of the string for every shape of s (real Tract + TRS)"""
    from engine.xh import explore, choose
    from pytrs.parser.tract import Tract
    from spec import trs_spec as SP
    twps = ('154n', '7s', '0n', '999s', 'XXXz', '___z')
    rges = ('97w', '2e', '0e', '999w', 'XXXz', '___z')
    secs = ('14', '01', '00', '99', 'XX', '__')

    def target(a: int, b: int, c: int, upper: bool):
        s = choose(a, twps) + choose(b, rges) + choose(c, secs)
        given = s.upper() if upper and 'z' not in s and 'X' not in s else s
        t = Tract('NE/4', trs=given, source=7, orig_desc='whole', orig_index=3)
        d = SP.decompose(s)
        for k in ('trs', 'twp', 'rge', 'sec', 'twp_num', 'twp_ns', 'rge_num', 'rge_ew', 'sec_num', 'twprge', 'twp_undef', 'rge_undef', 'sec_undef'):
            if getattr(t, k) != d[k]:
                return False
        return t.source == 7 and t.orig_desc == 'whole' and t.orig_index == 3 and t.trs_is_error() == (
            'XXXz' in (d['twp'], d['rge']) or d['sec'] == 'XX')

    st = explore(target, timeout=600, max_viol=3)
    info = dict(bound=f'Tract(trs=...) for {len(twps)}x{len(rges)}x{len(secs)} component shapes, lower/upper case',
                samples=[{'trs': '154nXXXz__'}])
    cl = lambda x, n: x if 0 <= x < n - 1 else n - 1
    return from_explore(st, info, lambda vs: [violation('tract-properties', f'Tract properties are not the decomposition of its trs for {v["args"]}; {v["exc"]}',
                                                        'c09_props', {'s': twps[cl(v['args']['a'], 6)] + rges[cl(v['args']['b'], 6)] + secs[cl(v['args']['c'], 6)]}) for v in vs])


def obligations(tier):
    q = tier == 'quick'
    from props import plss_abs as P
    G = ['PLSSParser.construct_tracts', 'ChunkParser._stage_new_tract', 'ChunkParser.get_next_twprge', 'ChunkParser.get_next_sec',
         'ChunkParser._parse_meaningful', 'ChunkParser._parse_copyall', 'SecUnpacker.unpack_sections', 'unpack_twprge',
         'twprge_natural_to_short', 'Tract.__init__', 'Tract.trs (setter)', 'TRS.trs_to_dict']
    obs = [Ob('tract_properties', 'S', ob_tract_props, 'Tract properties = decomposition of .trs', functions=['Tract.trs', 'TRS.trs_to_dict'],
              weight=2, timeout=900)]
    modes = ['default', 'colon_required', 'segment', 'sec_within', 'desc_STR', 'S_desc_TR', 'TR_desc_S', 'copy_all'] if q else list(P.MODES)
    for mname in modes:
        obs.append(Ob(f'glue_tracts_{mname}', 'S', ob_glue, f'tract well-formedness and traceability, mode {mname}', functions=G,
                      weight=6, timeout=7000, params={'mmax': 2 if q else 3, 'fill': P.FILL_Q if q else (0, 4, 5), 'modes': [mname],
                                                      'cap': 2100 if q else 6500}))
    return obs
