"""C06 -- tract parsing is compositional: lots, divisions, acreages and aliquots."""
from engine.framework import Ob, result, violation, from_explore

PROPERTY = 'C06'
LEVEL = 'other'
FILES = ['pytrs/parser/tract/tract_parse.py', 'pytrs/parser/tract/tract.py', 'pytrs/parser/unpack/unpackers.py',
         'pytrs/parser/rgxlib/lots.py', 'pytrs/parser/rgxlib/aliquots.py']
ASSUMPTIONS = [
    'descriptions are assembled from a vocabulary of 14 canonical elements (single lot, lot range, lot with (acreage) / [acreage], '
    'aliquot-of-lot(s), aliquot chains, ALL; with repeats so that duplicates occur) joined by ", " "; " line break or ",\\n"; the choice '
    'of elements, separators and configuration is symbolic; oracle: what each element yields when parsed on its own by the same Tract API',
    'engine M: on the live aliquot_unpacker_regex / multilot_with_aliquot_regex / lot_acres_unpacker_regex, canonical elements separated '
    'by a comma or semicolon are matched one by one (no fusion across the separator) and the ";;" placeholder never starts a match',
    'a line break does not separate an aliquot from what follows it (wrapped text is joined by design) and ALL is only recognised at the '
    'end of the text: both are listed as known findings',
]
EXPLANATION = ('CrossHair runs the real Tract / TractParser / LotUnpacker on every description of 2 (3 thorough) vocabulary elements x '
               'separators x configurations and compares with the element-wise oracle; z3 (engine M) proves on the live extraction '
               'patterns that comma / semicolon separated canonical elements are matched one at a time.')


def ob_api(ob):
    from engine.xh import explore, choose
    from props.c06_ref import ELEMENTS, SEPS, CONFIGS, verdict
    n = ob.params['n']
    first = ob.params.get('first')
    seen = {}

    pool = ob.params.get('pool') or tuple(range(len(ELEMENTS)))

    def run(es, ss, ci):
        idx = [first if (i == 0 and first is not None) else choose(e, pool) for i, e in enumerate(es)]
        seps = [choose(s, SEPS) for s in ss]
        cfg = choose(ci, CONFIGS)
        v = verdict(idx, seps, cfg)
        if v is None:
            return True
        if v[0] in ('line-break', 'all-with-neighbour'):      # by design / known: remember one example, go on
            seen.setdefault(v[0], (idx, seps, cfg, v[1]))
            return True
        return False

    if n == 2:
        def target(e0: int, e1: int, s0: int, ci: int):
            return run([e0, e1], [s0], ci)
    else:
        def target(e0: int, e1: int, e2: int, s0: int, s1: int, ci: int):
            return run([e0, e1, e2], [s0, s1], ci)
    st = explore(target, timeout=ob.params.get('cap', 2000), max_viol=4)
    info = dict(bound=f'descriptions of {n} elements out of {len(ELEMENTS)}' + (f' (first = {ELEMENTS[first][0]!r})' if first is not None else '') +
                      f' x {len(SEPS)} separators x {len(CONFIGS)} configs', samples=[{'text': 'Lot 4(38.29); N½NE¼', 'config': ''}])
    cl = lambda x, k: x if 0 <= x < k - 1 else k - 1

    def text_of(idx, seps):
        parts = [ELEMENTS[i][0] for i in idx]
        return parts[0] + ''.join(s + p for s, p in zip(seps, parts[1:]))

    def mk(vs):
        out = []
        for v in vs[:3]:
            a = v['args']
            idx = [first if (i == 0 and first is not None) else pool[cl(a[f'e{i}'], len(pool))] for i in range(n)]
            seps = [SEPS[cl(a[f's{i}'], len(SEPS))] for i in range(n - 1)]
            cfg = CONFIGS[cl(a['ci'], len(CONFIGS))]
            vv = verdict(idx, seps, cfg)
            out.append(violation(f'compositional:{vv[0] if vv else "?"}', f'Tract({text_of(idx, seps)!r}, config={cfg!r}): {vv[1] if vv else v["exc"]}',
                                 'c06_api', {'idx': idx, 'seps': seps, 'cfg': cfg}))
        return out
    r = from_explore(st, info, mk)
    if r['verdict'] in ('holds', 'violated'):
        r['violations'] = list(r.get('violations', [])) + [
            violation(f'compositional:{cls}', f'Tract({text_of(idx, seps)!r}, config={cfg!r}): {why}', 'c06_api', {'idx': idx, 'seps': seps, 'cfg': cfg})
            for cls, (idx, seps, cfg, why) in sorted(seen.items())]
    return r


def ob_m_elements(ob):
    """live extraction patterns on canonical element . separator . element: matched one at a time"""
    import time
    import z3
    import pytrs.parser.rgxlib as R
    from engine.matcher import Text, Matcher, validate
    from engine.templates import Template, Alt
    which = ob.params['which']
    aq = ['N½NE¼', 'SW¼', 'E½W½NW¼', 'S½', 'NE¼SE¼']
    lots = ['Lot 1', 'Lots 1 - 3', 'Lot 4(38.29)', 'Lot 5 [40.00]', 'L2', 'Lots 7 and 8']
    seps = [', ', '; ', ',', ';', ' ;; ', ', ;;, ']
    T = Text(34)
    if which == 'aliquot_unpacker_regex':
        pat = R.aliquot_unpacker_regex
        tpl = Template([Alt('a', aq), Alt('sep', seps), Alt('b', aq + lots + [';;'])], T)
        ag, tot, bad = validate(pat, ['N½NE¼, SW¼', ';;, S½', 'Lot 1; NE¼'], 20)
    else:
        pat = R.multilot_with_aliquot_regex
        tpl = Template([Alt('div', ['', 'N½ of ', 'S½NE¼ ', 'W½ of ']), Alt('a', lots), Alt('sep', ['; ', ';', ' ;; ', '; ;; ']), Alt('b', aq + [';;'])], T)
        ag, tot, bad = validate(pat, ['N½ of Lot 1; SW¼', 'Lots 1 - 3;N½', 'Lot 4(38.29) ;; S½'], 24)
    if bad:
        return result('error', notes=[f'translator validation {bad[:2]}'], validated=tot)
    M = Matcher(pat, T)
    sol = z3.Solver()
    sol.set('timeout', 900000)
    sol.add(*(T.wf() + tpl.cons + M.cons))
    t0 = time.time()
    twin = str(sol.check())
    if twin != 'sat':
        return result('error', notes=['twin ' + twin], queries=1)
    start = tpl.lo('div') if which != 'aliquot_unpacker_regex' else tpl.lo('a')
    good = z3.And(M.matched, M.startv == start, M.endv >= tpl.hi('a'), M.endv <= tpl.lo('b'))
    if which == 'aliquot_unpacker_regex':
        good = z3.And(M.matched, M.startv == tpl.lo('a'), M.endv == tpl.hi('a'))
    sol.add(z3.Not(good))
    r = str(sol.check())
    dt = time.time() - t0
    info = dict(queries=2, distinct=1, solver_s=round(dt, 2), validated=tot, states=M.n_states, transitions=M.n_transitions,
                bound=f'{which}: canonical element, comma / semicolon / ";;" separators, second element', samples=[{'pattern': which, 'answer': r}])
    if r == 'unsat':
        return result('holds', **info)
    if r != 'sat':
        return result('inconclusive', notes=[r], **info)
    w = T.value(sol.model())
    return result('violated', violations=[violation(f'element-match:{which}', f'{which} does not take the first element of {w!r} alone', 'c06_text', {'text': w})], **info)


def obligations(tier):
    q = tier == 'quick'
    from props.c06_ref import ELEMENTS
    S = ['TractParser.parse', 'TractParser.gen_flags', 'LotUnpacker.unpack_lots', 'get_rightmost_acreage', 'Tract.ilots', 'Tract.lots_qqs',
         'remove_fractions', 'parse_aliquot', 'scrub_aliquots']
    obs = [Ob(f'm_elements_{w}', 'M', ob_m_elements, f'{w} takes canonical elements one at a time', functions=[w], weight=6, timeout=3000,
              params={'which': w}) for w in ('aliquot_unpacker_regex', 'multilot_with_aliquot_regex')]
    if q:
        obs.append(Ob('api_2', 'S', ob_api, 'two-element descriptions', functions=S, weight=8, timeout=4000, params={'n': 2, 'cap': 3600}))
    else:
        for i in range(len(ELEMENTS)):
            obs.append(Ob(f'api_3_{i}', 'S', ob_api, f'three-element descriptions starting with {ELEMENTS[i][0]!r}', functions=S, weight=9, timeout=7000,
                          params={'n': 3, 'first': i, 'cap': 6500}))
    return obs
