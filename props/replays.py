"""replays.py -- public-API replays of candidate violations.  Runs under /venv/bin/python (no z3, no CrossHair, no
stubs): `python -m props.replays <replay.json>` prints REPRODUCED and exits 1 if the violation shows on the real
code, exits 0 if it does not."""
import json
import sys


def main():
    body = json.load(open(sys.argv[1]))
    from props import replay_defs
    fn = replay_defs.REPLAYS[body['kind']]
    bad, observed = fn(**body['args'])
    print(f"replay kind={body['kind']} args={json.dumps(body['args'], default=str)[:500]}")
    print(f"observed: {observed}"[:1500])
    if bad:
        print('REPRODUCED')
        sys.exit(1)
    print('not reproduced')
    sys.exit(0)


if __name__ == '__main__':
    main()
