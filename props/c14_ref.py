"""C14 shared pieces (no z3/CrossHair imports): snapshots, op application and the history reference model."""
TEXT = ('T154N-R97W Sec 14: Lot 1, Lot 1(40.0), NE/4, NE, less and except the wellbore; '
        'Sec 16 - 15: N/2NW/4, NW, Lots 3 - 2')
DESC = 'Lot 1, Lot 1(40.0), NE/4, NE, Lots 3 - 2, N/2 of L5'
SETTINGS = ('parse_qq', 'clean_qq', 'suppress_lot_divs', 'break_halves', 'qq_depth', 'qq_depth_min', 'qq_depth_max',
            'sec_colon_required', 'sec_colon_cautious', 'segment', 'sec_within', 'ocr_scrub', 'default_ns', 'default_ew',
            'layout', 'wait_to_parse')


def snap_tract(t):
    return (t.trs, t.desc, t.pp_desc, tuple(t.lots), tuple(t.qqs), tuple(sorted(t.lot_acres.items())),
            tuple(t.aliquots_whole), tuple(t.w_flags), tuple(t.e_flags), tuple(t.w_flag_lines), tuple(t.e_flag_lines),
            t.parse_complete, t.orig_index, t.orig_desc, t.source,
            tuple((s, getattr(t, s, None)) for s in SETTINGS[:7]), t.config.decompile_to_text())


def snap_desc(d):
    return (d.orig_desc, d.pp_desc, d.current_layout, d.layout, tuple(d.w_flags), tuple(d.e_flags),
            tuple(d.w_flag_lines), tuple(d.e_flag_lines), tuple(snap_tract(t) for t in d.tracts),
            tuple((s, getattr(d, s, None)) for s in SETTINGS), d.desc_is_flawed, type(d.tracts).__name__, d.config.decompile_to_text())


# an op is (kind, commit, pq, cq):  kind 0 parse | 1 parse_tracts | 2 preprocess | 3 config assignment | 4 sort | 5 filter
def apply_desc(d, op):
    kind, commit, pq, cq = op
    if kind == 0:
        return d.parse(commit=commit, parse_qq=pq, clean_qq=cq)
    if kind == 1:
        return d.parse_tracts(clean_qq=cq, suppress_lot_divs=pq)
    if kind == 2:
        return d.preprocess(commit=commit)
    if kind == 3:
        d.config = 'clean_qq' if cq else ('parse_qq' if pq else 'break_halves')
        return None
    if kind == 4:
        return d.sort_tracts('s.rev,t' if commit else 's')
    return d.filter(lambda t: t.sec == '15', drop=True)


def commits(op):
    kind, commit, pq, cq = op
    return kind in (1, 3, 4, 5) or bool(commit)


def reference_desc(make, ops):
    """what the history must be equivalent to, on a fresh object: drop operations with commit=False; before the last
    committed parse keep only the config assignments; after it keep the config assignments, the *last* parse_tracts and
    the sort / filter / preprocess operations with consecutive duplicates collapsed -- all in their original order"""
    d = make()
    eff = [op for op in ops if commits(op)]
    last_parse = max([i for i, op in enumerate(eff) if op[0] == 0], default=-1)
    head = [op for op in eff[:last_parse] if op[0] == 3] if last_parse >= 0 else []
    tail = eff[last_parse:] if last_parse >= 0 else eff
    last_pt = max([i for i, op in enumerate(tail) if op[0] == 1], default=None)
    prev = None
    for op in head:
        apply_desc(d, op)
    for i, op in enumerate(tail):
        if op[0] == 1 and i != last_pt:
            continue
        if op == prev and op[0] != 0:
            continue
        apply_desc(d, op)
        prev = op
    return d


def apply_tract(t, op):
    kind, commit, sd, cq = op
    if kind == 0:
        return t.parse(commit=commit, clean_qq=cq, suppress_lot_divs=sd)
    if kind == 1:
        return t.parse(commit=commit)
    if kind == 2:
        return t.preprocess(commit=commit, clean_qq=cq)
    t.config = 'clean_qq' if cq else ('suppress_lot_divs' if sd else 'break_halves')
    return None


def tract_commits(op):
    return op[0] == 3 or bool(op[1])


def reference_tract(make, ops):
    """fresh object; drop commit=False operations; before the last committed parse keep only config assignments"""
    t = make()
    eff = [op for op in ops if tract_commits(op)]
    last_parse = max([i for i, op in enumerate(eff) if op[0] in (0, 1)], default=-1)
    head = [op for op in eff[:last_parse] if op[0] == 3] if last_parse >= 0 else []
    tail = eff[last_parse:] if last_parse >= 0 else eff
    for op in head + tail:
        apply_tract(t, op)
    return t
