"""C13 -- configuration round-trips through text and has a single precedence order."""
from typing import Optional

from engine.framework import Ob, result, violation, from_explore

PROPERTY = 'C13'
LEVEL = 'other'
FILES = ['pytrs/parser/config/config.py', 'pytrs/parser/plssdesc/plssdesc.py', 'pytrs/parser/plssdesc/plss_parse.py',
         'pytrs/parser/tract/tract.py', 'pytrs/parser/containers/containers.py']
ASSUMPTIONS = [
    'descriptions are concrete (a small corpus on which each setting makes a difference); the settings are the symbolic '
    'part: config-string value and parse() keyword value of every setting in a group, and the channel used',
    'reference for "the same effect": the same description created with the effective value (keyword, else config '
    'value) written into the config string at creation',
    'integer depths range over {None, 1, 2, 3}; depth combinations with max < min are excluded (documented as unsupported)',
]
EXPLANATION = ('CrossHair executes the real Config / PLSSDesc / Tract code with symbolic Optional keyword values (and '
               'symbolic choices of config-string values and channel) and compares the committed results with the '
               'config-string-only reference; Config.from_dict -> text -> Config is checked for every assignment of a '
               'group of settings.')

BOOLS = ('wait_to_parse', 'parse_qq', 'clean_qq', 'sec_colon_required', 'sec_colon_cautious', 'suppress_lot_divs',
         'ocr_scrub', 'segment', 'break_halves', 'sec_within')
LAYOUTS = ('TRS_desc', 'desc_STR', 'S_desc_TR', 'TR_desc_S', 'copy_all')
TEXTS = {
    'qq': 'T154N-R97W Sec 14: S/2N/2NE/4, NW, N/2 of Lot 1',
    'colon': 'T154N-R97W Sec 14 NE/4, Sec 15: NW/4',
    'ocr': 'TIS4N-R97W Sec 14: NE/4',
    'segment': 'Sec 14: NE/4, T154N-R97W; T155N-R97W Sec 1: W/2',
    'within': 'That part of Sec 14 lying north of the river, T154N-R97W',
    'dirs': 'T154-R97 Sec 14: NE/4',
    'layout': 'T154N-R97W Sec 14: NE/4, Sec 15: W/2',
}


def cfg_item(name, val):
    if val is None:
        return None
    if name in BOOLS:
        return name if val else f'{name}.False'
    if name in ('default_ns', 'default_ew', 'layout'):
        return val
    return f'{name}.{val}'


def cfg_text(d):
    return ','.join(x for x in (cfg_item(k, v) for k, v in d.items()) if x)


# ------------------------------------------------------------------ (i) Config round trip
def ob_config_roundtrip(ob):
    from engine.xh import explore, choose
    from pytrs.parser.config import Config
    group = ob.params['group']          # names whose values are symbolic in this shard
    T3 = (None, True, False)
    DOM = {'default_ns': (None, 'n', 's', 'N', 'S'), 'default_ew': (None, 'e', 'w', 'E', 'W'),
           'layout': (None,) + LAYOUTS, 'qq_depth': (None, 0, 1, 2, 3, 10), 'qq_depth_min': (None, 0, 1, 2, 3, 10),
           'qq_depth_max': (None, 0, 1, 2, 3, 10)}

    def dom(n):
        return T3 if n in BOOLS else DOM[n]

    def check(vals):
        d = {n: choose(v, dom(n)) for n, v in zip(group, vals)}
        cf = Config.from_dict(d)
        txt = cf.decompile_to_text()
        back = Config(txt)
        again = Config(back)            # a Config built from a Config
        for att in Config._CONFIG_ATTRIBUTES:
            want = d.get(att)
            if att in ('default_ns', 'default_ew') and want is not None:
                want = want.lower()
            if getattr(cf, att) != want or getattr(back, att) != want or getattr(again, att) != want:
                return False
            if type(getattr(back, att)) is not type(want):
                return False
        return back.decompile_to_text() == txt and str(back) == txt

    n = len(group)
    if n == 3:
        def target(a: int, b: int, c: int):
            return check([a, b, c])
    elif n == 4:
        def target(a: int, b: int, c: int, d: int):
            return check([a, b, c, d])
    elif n == 5:
        def target(a: int, b: int, c: int, d: int, e: int):
            return check([a, b, c, d, e])
    else:
        def target(a: int, b: int, c: int, d: int, e: int, f: int):
            return check([a, b, c, d, e, f])
    st = explore(target, timeout=ob.params.get('cap', 600), max_viol=3)
    info = dict(bound=f'all assignments of {group} (booleans in unset/True/False; directions, layouts, depths from their '
                      f'tables), other settings unset', samples=[{'settings': group}])

    def mk(vs):
        out = []
        for v in vs:
            d = {n: dom(n)[x] if 0 <= x < len(dom(n)) - 1 else dom(n)[-1] for n, x in zip(group, v['args'].values())}
            out.append(violation('config-roundtrip', f'Config.from_dict({d}) does not survive text and back; {v["exc"]}',
                                 'c13_roundtrip', {'d': d}))
        return out
    return from_explore(st, info, mk)


def ob_config_unknown(ob):
    """unknown setting names are rejected with ValueError; type errors with ConfigError (a TypeError)"""
    from engine.xh import explore, choose
    from pytrs.parser.config import Config, ConfigError
    names = ('foo', 'clean_q', 'cleanqq', 'parse_qqs', 'qq_depth_mx.2', 'qq_depth_minimum.2', 'sec_colon', 'layout_x',
             'segment_', 'x.True', 'break_halve', 'default_nsx.n', 'copyall', 'trs_desc', 'ne', 'sw', 'north')
    before = ('', 'n,', 'clean_qq,', 'qq_depth.2;')
    after = ('', ',w', ', segment')

    def target(i: int, b: int, a: int):
        txt = choose(b, before) + choose(i, names) + choose(a, after)
        try:
            Config(txt)
        except ValueError:
            pass
        else:
            return False
        try:
            Config(5 + i)
        except ConfigError:
            return True
        return False

    st = explore(target, timeout=300, max_viol=3)
    info = dict(bound=f'{len(names)} near-miss names x {len(before)} prefixes x {len(after)} suffixes', samples=[{'names': names}])
    return from_explore(st, info, lambda vs: [
        violation('config-unknown-name', f'Config text with an unknown name accepted: {v["args"]}; {v["exc"]}', 'c13_unknown',
                  {'txt': before[min(max(v['args']['b'], 0), len(before) - 1) if 0 <= v['args']['b'] < len(before) - 1 else -1]
                   + names[v['args']['i'] if 0 <= v['args']['i'] < len(names) - 1 else -1]
                   + after[v['args']['a'] if 0 <= v['args']['a'] < len(after) - 1 else -1]}) for v in vs])


# ------------------------------------------------------------------ (ii)+(iii) channels and precedence, PLSSDesc
def snapshot_desc(d):
    return {'layout': d.current_layout, 'pp': d.pp_desc,
            'tracts': [(t.trs, t.desc, tuple(t.lots), tuple(t.qqs), t.parse_complete, t.pp_desc) for t in d.tracts],
            'w': tuple(d.w_flags), 'e': tuple(d.e_flags)}


PLSS_GROUPS = {
    # group name -> (settings with domains, texts)
    'qq': ((('parse_qq', (None, True, False)), ('clean_qq', (None, True, False))), ('qq',)),
    'colon': ((('sec_colon_required', (None, True, False)), ('sec_colon_cautious', (None, True, False))), ('colon',)),
    'halves_ocr': ((('break_halves', (None, True, False)), ('ocr_scrub', (None, True, False)), ('parse_qq', (True,))), ('qq', 'ocr')),
    'segment_within': ((('segment', (None, True, False)), ('sec_within', (None, True, False))), ('segment', 'within')),
    'dirs': ((('default_ns', (None, 'n', 's')), ('default_ew', (None, 'e', 'w'))), ('dirs',)),
    'layout': ((('layout', (None,) + LAYOUTS), ('segment', (None, True))), ('layout', 'segment')),
    'depth': ((('qq_depth_min', (None, 1, 3)), ('qq_depth_max', (None, 3)), ('qq_depth', (None, 2)), ('parse_qq', (True,))), ('qq',)),
}


def ob_plss_channels(ob):
    from engine.xh import explore, choose, NoTracing
    from pytrs.parser.plssdesc import PLSSDesc
    gname = ob.params['group']
    settings, texts = PLSS_GROUPS[gname]
    names = [s[0] for s in settings]
    doms = [s[1] for s in settings]
    NOKW = ('suppress_lot_divs', 'wait_to_parse')

    def run(cvals, kvals, channel):
        cvals = [choose(v, dm) for v, dm in zip(cvals, doms)]
        kvals = [choose(v, dm) for v, dm in zip(kvals, doms)]
        c = dict(zip(names, cvals))
        k = {n: v for n, v in zip(names, kvals) if v is not None}
        eff = {n: (k[n] if n in k else c[n]) for n in names}
        if eff.get('qq_depth_min') is not None and eff.get('qq_depth_max') is not None \
                and eff['qq_depth_max'] < eff['qq_depth_min']:
            return True
        if 'qq_depth' in k or 'qq_depth_min' in k or 'qq_depth_max' in k:
            # a depth keyword takes the config's qq_depth out of play (documented in Tract.parse / PLSSDesc.parse)
            if 'qq_depth' not in k:
                eff['qq_depth'] = None
        for txt_key in texts:
            text = TEXTS[txt_key]
            ref = PLSSDesc(text, config=cfg_text(eff))
            if channel:
                d = PLSSDesc(text, config=cfg_text(c))
            else:
                d = PLSSDesc(text, wait_to_parse=True)
                d.config = cfg_text(c)
            d.parse(**k)
            if snapshot_desc(d) != snapshot_desc(ref):
                return False
        return True

    n = len(names)
    if n == 2:
        def target(c0: int, c1: int, k0: int, k1: int, channel: bool):
            return run([c0, c1], [k0, k1], channel)
    elif n == 3:
        def target(c0: int, c1: int, c2: int, k0: int, k1: int, k2: int, channel: bool):
            return run([c0, c1, c2], [k0, k1, k2], channel)
    else:
        def target(c0: int, c1: int, c2: int, c3: int, k0: int, k1: int, k2: int, k3: int, channel: bool):
            return run([c0, c1, c2, c3], [k0, k1, k2, k3], channel)
    st = explore(target, timeout=ob.params.get('cap', 900), max_viol=ob.params.get('max_viol', 30))
    info = dict(bound=f'settings {dict(settings)} in config string x parse() keyword x channel (config at creation | '
                      f'assigned to .config before parse), texts {[TEXTS[t] for t in texts]}',
                samples=[{'group': gname, 'settings': names}])

    def clamp(x, dm):
        return dm[x] if 0 <= x < len(dm) - 1 else dm[-1]

    def mk(vs):
        out = {}
        for v in vs:
            a = v['args']
            c = {nm: clamp(a[f'c{i}'], doms[i]) for i, nm in enumerate(names)}
            k = {nm: clamp(a[f'k{i}'], doms[i]) for i, nm in enumerate(names)}
            k = {x: y for x, y in k.items() if y is not None}
            culprit = _culprit(c, k)
            key = f'plssdesc-channel:{culprit}'
            out.setdefault(key, violation(key, f'PLSSDesc: config {c} + parse(**{k}) via '
                                               f'{"config at creation" if a["channel"] else ".config assignment"} differs from the '
                                               f'same settings given in the config string; {v["exc"]}', 'c13_plss',
                                          {'group': gname, 'c': c, 'k': k, 'channel': bool(a['channel'])}))
        return list(out.values())
    return from_explore(st, info, mk)


def _culprit(c, k):
    """name the setting whose keyword (or config value) is the likely culprit: smallest explanation first"""
    if len(k) == 1:
        return 'kw:' + next(iter(k))
    if not k:
        cs = [n for n, v in c.items() if v is not None]
        return 'cfg:' + '+'.join(cs)
    return 'kw:' + '+'.join(sorted(k))


# ------------------------------------------------------------------ wait_to_parse / suppress_lot_divs (config only)
def ob_plss_config_only(ob):
    from engine.xh import explore, choose
    from pytrs.parser.plssdesc import PLSSDesc
    text = TEXTS['qq']

    def target(w: int, s: int, kw: int, channel: bool):
        w = choose(w, (None, True, False)); s = choose(s, (None, True, False)); kw = choose(kw, (None, True, False))
        c = {'wait_to_parse': w, 'suppress_lot_divs': s, 'parse_qq': True}
        if channel:
            d = PLSSDesc(text, config=cfg_text(c)) if kw is None else PLSSDesc(text, config=cfg_text(c), wait_to_parse=kw)
        else:
            d = PLSSDesc(text, wait_to_parse=True)
            d.config = cfg_text(c)
            if not (w if kw is None else kw):
                d.parse()
            kw = None if kw is None else kw
        waits = bool(w) if kw is None else bool(kw)
        if not channel:
            waits = bool(w) if kw is None else bool(kw)
        if waits:
            return len(d.tracts) == 0
        if len(d.tracts) != 1:
            return False
        lots = d.tracts[0].lots
        return lots == (['L1'] if s else ['N2 of L1'])

    st = explore(target, timeout=300, max_viol=6)
    info = dict(bound='wait_to_parse (config / init keyword) x suppress_lot_divs (config) x channel', samples=[{'text': text}])

    def mk(vs):
        out = []
        for v in vs:
            a = v['args']
            cl = lambda x: (None, True, False)[x] if 0 <= x < 2 else False
            out.append(violation('plssdesc-config-only:' + ('wait_to_parse' if cl(a['w']) is not None else 'suppress_lot_divs'),
                                 f'PLSSDesc with config wait_to_parse={cl(a["w"])}, suppress_lot_divs={cl(a["s"])}, init keyword '
                                 f'wait_to_parse={cl(a["kw"])}: setting has no effect; {v["exc"]}', 'c13_config_only',
                                 {'w': cl(a['w']), 's': cl(a['s']), 'kw': cl(a['kw']), 'channel': bool(a['channel'])}))
        return out
    return from_explore(st, info, mk)


# ------------------------------------------------------------------ Tract channels
TRACT_SETTINGS = (('clean_qq', (None, True, False)), ('suppress_lot_divs', (None, True, False)),
                  ('break_halves', (None, True, False)), ('qq_depth_min', (None, 1, 3)), ('qq_depth_max', (None, 3)),
                  ('qq_depth', (None, 2)))


def snapshot_tract(t):
    return (t.trs, t.desc, t.pp_desc, tuple(t.lots), tuple(t.qqs), tuple(sorted(t.lot_acres.items())),
            tuple(t.aliquots_whole), tuple(t.w_flags), t.parse_complete)


def ob_tract_channels(ob):
    from engine.xh import explore, choose
    from pytrs.parser.tract import Tract
    idx = ob.params['idx']
    settings = [TRACT_SETTINGS[i] for i in idx]
    names = [s[0] for s in settings]
    doms = [s[1] for s in settings]
    desc = 'S/2N/2NE/4, NW, N/2 of Lot 1, Lot 2(40.1)'

    def run(cvals, kvals, channel):
        cvals = [choose(v, dm) for v, dm in zip(cvals, doms)]
        kvals = [choose(v, dm) for v, dm in zip(kvals, doms)]
        c = dict(zip(names, cvals))
        k = {n: v for n, v in zip(names, kvals) if v is not None}
        eff = {n: (k[n] if n in k else c[n]) for n in names}
        if eff.get('qq_depth_min') is not None and eff.get('qq_depth_max') is not None \
                and eff['qq_depth_max'] < eff['qq_depth_min']:
            return True
        if ('qq_depth_min' in k or 'qq_depth_max' in k) and 'qq_depth' not in k:
            eff['qq_depth'] = None
        ref = Tract(desc, trs='154n97w14', config=cfg_text(eff), parse_qq=True)
        if channel:
            t = Tract(desc, trs='154n97w14', config=cfg_text(c))
        else:
            t = Tract(desc, trs='154n97w14')
            t.config = cfg_text(c)
        t.parse(**k)
        return snapshot_tract(t) == snapshot_tract(ref)

    if len(names) == 3:
        def target(c0: int, c1: int, c2: int, k0: int, k1: int, k2: int, channel: bool):
            return run([c0, c1, c2], [k0, k1, k2], channel)
    else:
        def target(c0: int, c1: int, k0: int, k1: int, channel: bool):
            return run([c0, c1], [k0, k1], channel)
    st = explore(target, timeout=ob.params.get('cap', 900), max_viol=20)
    info = dict(bound=f'Tract settings {dict(settings)} x config string / keyword x channel; description {desc!r}',
                samples=[{'settings': names, 'desc': desc}])

    def clamp(x, dm):
        return dm[x] if 0 <= x < len(dm) - 1 else dm[-1]

    def mk(vs):
        out = {}
        for v in vs:
            a = v['args']
            c = {nm: clamp(a[f'c{i}'], doms[i]) for i, nm in enumerate(names)}
            k = {nm: clamp(a[f'k{i}'], doms[i]) for i, nm in enumerate(names)}
            k = {x: y for x, y in k.items() if y is not None}
            key = 'tract-channel:' + _culprit(c, k)
            out.setdefault(key, violation(key, f'Tract: config {c} + parse(**{k}) differs from the same settings in the config '
                                               f'string; {v["exc"]}', 'c13_tract', {'c': c, 'k': k, 'channel': bool(a['channel'])}))
        return list(out.values())
    return from_explore(st, info, mk)


def obligations(tier):
    q = tier == 'quick'
    obs = []
    groups = [('wait_to_parse', 'parse_qq', 'clean_qq', 'default_ns'), ('sec_colon_required', 'sec_colon_cautious', 'suppress_lot_divs', 'default_ew'),
              ('ocr_scrub', 'segment', 'break_halves', 'sec_within', 'layout'), ('qq_depth', 'qq_depth_min', 'qq_depth_max', 'layout')]
    if not q:
        groups += [('parse_qq', 'clean_qq', 'sec_colon_required', 'sec_colon_cautious', 'suppress_lot_divs', 'ocr_scrub'),
                   ('segment', 'break_halves', 'sec_within', 'wait_to_parse', 'default_ns', 'default_ew'),
                   ('qq_depth', 'qq_depth_min', 'qq_depth_max', 'default_ns', 'default_ew', 'parse_qq')]
    for i, g in enumerate(groups):
        obs.append(Ob(f'config_roundtrip_{i}', 'S', ob_config_roundtrip, f'Config -> text -> Config for {g}',
                      functions=['Config.from_dict', 'Config.decompile_to_text', 'Config.__init__',
                                 'Config._text_to_attributes', 'Config._set_str_to_values', 'attrib_and_val_to_str',
                                 'str_to_value'], weight=4, timeout=1800, params={'group': g, 'cap': 1500}))
    obs.append(Ob('config_unknown', 'S', ob_config_unknown, 'unknown names -> ValueError; non-str -> ConfigError',
                  functions=['Config.__init__', 'Config._set_str_to_values'], weight=1, timeout=600))
    for g in PLSS_GROUPS:
        obs.append(Ob(f'plss_channels_{g}', 'S', ob_plss_channels, f'PLSSDesc channels and precedence: {g}',
                      functions=['PLSSDesc.__init__', 'PLSSDesc.config (setter)', 'PLSSDesc.parse', 'PLSSParser.__init__',
                                 'PLSSParser.construct_tracts', 'Tract.__init__', 'Tract.config (setter)', 'Tract.parse'],
                      weight=8, timeout=2400, params={'group': g, 'cap': 2000}))
    obs.append(Ob('plss_config_only', 'S', ob_plss_config_only, 'wait_to_parse and suppress_lot_divs through config',
                  functions=['PLSSDesc.__init__', 'PLSSDesc.config (setter)'], weight=2, timeout=900))
    obs.append(Ob('tract_channels_bools', 'S', ob_tract_channels, 'Tract channels: clean_qq, suppress_lot_divs, break_halves',
                  functions=['Tract.__init__', 'Tract.config (setter)', 'Tract.parse', 'TractParser.__init__'], weight=6,
                  timeout=2400, params={'idx': (0, 1, 2), 'cap': 2000}))
    obs.append(Ob('tract_channels_depth', 'S', ob_tract_channels, 'Tract channels: qq_depth_min/max/qq_depth',
                  functions=['Tract.__init__', 'Tract.config (setter)', 'Tract.parse', 'TractParser.__init__'], weight=6,
                  timeout=2400, params={'idx': (3, 4, 5), 'cap': 2000}))
    return obs
