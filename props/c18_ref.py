"""C18 reference criterion for filter_duplicates (no z3/CrossHair imports; shared with the replays)"""
METHODS = ('default', 'instance', 'trs', 'desc', 'lots_qqs')
DESCS = ('NE/4', ' NE/4 ', 'Lot 1')
TR = ('154n97w14', '155n97w01')


def dup_expected(kind, method, els, keys):
    """an element is a duplicate iff an *earlier* element is the same under the method"""
    if method == 'default':
        method = 'instance' if kind else 'trs'
    exp = []
    for i, e in enumerate(els):
        dup = False
        for j in range(i):
            same_inst = (els[j] is e) if kind else (els[j].trs == e.trs)
            if same_inst:
                dup = True
            elif method != 'instance' and keys[method][i] is not None and keys[method][i] == keys[method][j]:
                dup = True
        exp.append(dup)
    return exp
