"""C02 -- aliquot parsing tiles exactly the described area at the requested depth."""
from typing import Optional

from engine.framework import Ob, result, violation, from_explore

PROPERTY = 'C02'
LEVEL = 'other'
FILES = ['pytrs/parser/tract/aliquot_parse.py', 'pytrs/parser/tract/tract_parse.py', 'pytrs/parser/tract/tract.py',
         'pytrs/parser/rgxlib/aliquots.py']
ASSUMPTIONS = [
    'the text handed to parse_aliquot is the canonical rendering of the chain (N½NE¼..., ALL); spelling normalisation is C07',
    'chains of 1..3 components in quick, 1..4 in thorough over the 8 halves/quarters in any order, plus ALL on its own (the '
    'public API only ever hands ALL to the parser as a stand-alone block); qq_depth_min 1..3; '
    'qq_depth_max None or min..min+2; qq_depth None or 1..3; break_halves on/off',
    'geometric oracle spec/aliquot_spec.py (exact fractions on the unit square) is part of the trusted base',
]
EXPLANATION = ('CrossHair executes the real parse_aliquot (standardize_aliquot_components, pass_back_halves, '
               'combine_consecutive_halves, subdivide_aliquot, rebuild_aliquots) with symbolic depth integers, break_halves and '
               'component indices; on each completed path the returned pieces are checked geometrically (pairwise disjoint, '
               'inside the described region, areas add up, depth limits, no halves under break_halves). The chain shapes '
               'are a finite enumeration, so paths are close to one per (chain, settings) combination.')


def ob_tiling(ob):
    from engine.xh import explore, choose, IgnoreAttempt, NoTracing
    from crosshair.core import deep_realize
    from pytrs.parser.tract.aliquot_parse import parse_aliquot
    from spec import aliquot_spec as A
    n = ob.params['n']
    first = ob.params.get('first')          # shard on the largest component
    comps = A.HALVES + A.QUARTERS if n > 1 else A.COMPONENTS

    def run(cs, dmin, dmax_delta, qd, bh):
        # symbolic integers folded into their ranges (no attempt is wasted on an out-of-range value)
        dmin = 1 + dmin % 3
        if first is not None:
            chain = [choose(c, comps) for c in cs[:-1]] + [first]
        else:
            chain = [choose(c, comps) for c in cs]
        m = dmax_delta % 4
        dmax = None if m == 0 else dmin + (m - 1)
        k = qd % 4
        qd = None if k == 0 else k
        if qd is not None and (dmin != 1 or dmax is not None):
            raise IgnoreAttempt          # qq_depth overrides min/max: one representative is enough
        text = A.canonical_text(chain)
        qqs = parse_aliquot(text, dmin, dmax, qd, bh)
        with NoTracing():
            qqs = deep_realize(qqs)
            dmin_r, dmax_r, qd_r, bh_r = deep_realize(dmin), deep_realize(dmax), deep_realize(qd), deep_realize(bh)
            if qd_r is not None:
                dmin_r = dmax_r = qd_r
            return A.check_tiling(chain, list(qqs), dmin_r, dmax_r, bool(bh_r)) is None

    if n == 1:
        def target(c0: int, dmin: int, dmaxd: int, qd: int, bh: bool):
            return run([c0], dmin, dmaxd, qd, bh)
    elif n == 2:
        def target(c0: int, c1: int, dmin: int, dmaxd: int, qd: int, bh: bool):
            return run([c0, c1], dmin, dmaxd, qd, bh)
    elif n == 3:
        def target(c0: int, c1: int, c2: int, dmin: int, dmaxd: int, qd: int, bh: bool):
            return run([c0, c1, c2], dmin, dmaxd, qd, bh)
    else:
        def target(c0: int, c1: int, c2: int, c3: int, dmin: int, dmaxd: int, qd: int, bh: bool):
            return run([c0, c1, c2, c3], dmin, dmaxd, qd, bh)
    st = explore(target, timeout=ob.params.get('cap', 900), max_viol=5)
    info = dict(bound=f'chains of {n} components' + (f' whose largest component is {first}' if first else '') +
                      ', qq_depth_min 1..3, qq_depth_max None|min..min+2, qq_depth None|1..3, break_halves',
                samples=[{'chain_text': 'S½N½NE¼', 'qq_depth_min': 2, 'qq_depth_max': 2, 'expected_region': 'N½NE¼ tiled by NENE, NWNE'}])

    def cl(x, k):
        return x if 0 <= x < k - 1 else k - 1

    def mk(vs):
        out = []
        for v in vs:
            a = v['args']
            chain = [comps[cl(a[f'c{i}'], len(comps))] for i in range(n)]
            if first is not None:
                chain[-1] = first
            dmin = 1 + a['dmin'] % 3
            m = a['dmaxd'] % 4
            dmax = None if m == 0 else dmin + (m - 1)
            a['qd'] = None if a['qd'] % 4 == 0 else a['qd'] % 4
            out.append(violation('aliquot-tiling:' + A.canonical_text(chain), f'parse_aliquot({A.canonical_text(chain)!r}, qq_depth_min={dmin}, '
                                 f'qq_depth_max={dmax}, qq_depth={a["qd"]}, break_halves={a["bh"]}) does not tile the described region; {v["exc"]}',
                                 'c02_tiling', {'chain': chain, 'dmin': dmin, 'dmax': dmax, 'qd': a['qd'], 'bh': bool(a['bh'])}))
        return out
    return from_explore(st, info, mk)


def obligations(tier):
    q = tier == 'quick'
    from spec import aliquot_spec as A
    F = ['parse_aliquot', 'standardize_aliquot_components', 'pass_back_halves', 'combine_consecutive_halves',
         'subdivide_aliquot', 'rebuild_aliquots', 'single_aliquot_unpacker_regex']
    obs = [Ob('tiling_1', 'S', ob_tiling, 'single components', functions=F, weight=1, timeout=900, params={'n': 1, 'cap': 800}),
           Ob('tiling_2', 'S', ob_tiling, 'chains of 2', functions=F, weight=3, timeout=1800, params={'n': 2, 'cap': 1600})]
    for c in A.HALVES + A.QUARTERS:
        obs.append(Ob(f'tiling_3_{c}', 'S', ob_tiling, f'chains of 3, largest component {c}', functions=F, weight=5,
                      timeout=2400, params={'n': 3, 'first': c, 'cap': 2100}))
    if not q:
        for c in A.HALVES + A.QUARTERS:
            obs.append(Ob(f'tiling_4_{c}', 'S', ob_tiling, f'chains of 4, largest component {c}', functions=F, weight=9,
                          timeout=7000, params={'n': 4, 'first': c, 'cap': 6500}))
    return obs
