"""reference comparator of C17 without any z3/CrossHair import (shared with the replays)"""
INF = 10 ** 9


def ref_rank(sub, e, uid):
    var, _, method = sub.partition('.')
    method = method or 'num'
    if var == 'i':
        return uid
    if var == 's':
        return INF if e.sec_num is None else e.sec_num
    if var == 't':
        if e.twp_num is None:
            return INF
        if method == 'num':
            return e.twp_num
        n_first = -e.twp_num if e.twp_ns == 'n' else e.twp_num
        return n_first if method == 'ns' else -n_first
    if var == 'r':
        if e.rge_num is None:
            return INF
        if method == 'num':
            return e.rge_num
        w_first = -e.rge_num if e.rge_ew == 'w' else e.rge_num
        return w_first if method == 'we' else -w_first
    raise AssertionError(sub)


def parse_ref(key):
    out = []
    for k in key.lower().replace(' ', '').replace('reverse', 'rev').split(','):
        rev = k.endswith('.rev')
        if rev:
            k = k[:-4]
        out.append((k, rev))
    return out
