"""C10 -- flags are well-typed, shared with tracts, and raised whenever warranted."""
from engine.framework import Ob, result, violation, from_explore

PROPERTY = 'C10'
LEVEL = 'other'
FILES = ['pytrs/parser/plssdesc/plss_parse.py', 'pytrs/parser/plssdesc/plssdesc.py', 'pytrs/parser/rgxlib/warnings.py',
         'pytrs/parser/tract/tract_parse.py', 'pytrs/parser/unpack/unpackers.py']
ASSUMPTIONS = [
    'flag typing / hand-down / error-flag invariants are asserted on every path of the provenance-document harness shared with '
    'C03 (contract finder patterns; document shape and parse mode symbolic)',
    'trigger phrases (DESIGN.md Appendix A) are placed between arbitrary contexts of <= 3 characters whose adjacent character is '
    'not a word character; engine M decides on the live warning patterns that a match starts inside the phrase',
    'gen_flags_chunk is run on contract warning patterns with 1..3 matches at symbolic distances',
]
EXPLANATION = ('Engine S (CrossHair) checks flag shape, sharing and error-flag presence over the bounded document family and the '
               'clustering loop of gen_flags_chunk; engine M (z3, exact bounded regex model) proves for each trigger phrase in any '
               'short context that the corresponding live warning pattern matches inside it.')

TRIGGERS = {
    'less_except_regex': ('less_except', ['less and except', 'less & except', 'except', 'excepting', 'limited to', 'limitation', 'less']),
    'isfa_regex': ('insofar', ['insofar as', 'in so far as', 'only insofar', 'but only in so far as']),
    'including_regex': ('including', ['including', 'incl.', 'inclusive of']),
    'depth_regex': ('depth', ['depth', 'depths', 'surface', 'surface to the base of', 'formation', 'top of', 'base of', 'down to']),
    'well_regex': ('well', ['well', 'wellbore']),
}
# 'less & except' is matched through its first word 'less'


def ob_trigger(ob):
    import time
    import z3
    import pytrs.parser.rgxlib as R
    from engine.matcher import Text, Matcher, UCHARS, WORD, validate
    from engine.templates import Template, Alt, Fill
    pname = ob.params['pattern']
    flag, phrases = TRIGGERS[pname]
    pat = getattr(R, pname)
    C = ob.params.get('ctx', 3)
    N = max(len(p) for p in phrases) + 2 * C
    strings = [f'x {p} y' for p in phrases] + [p.upper() for p in phrases] + ['nothing here', 'wells', 'unless', 'form']
    ag, tot, bad = validate(pat, strings, N + 4)
    if bad:
        return result('error', notes=[f'translator validation: {bad[:2]}'], validated=tot)
    T = Text(N)
    tpl = Template([Fill('pre', UCHARS, 0, C, last_not=WORD), Alt('phrase', phrases, cases=True),
                    Fill('post', UCHARS, 0, C, first_not=WORD)], T)
    M = Matcher(pat, T)
    base = T.wf() + tpl.cons + M.cons
    sol = z3.Solver()
    sol.set('timeout', ob.params.get('cap', 300) * 1000)
    sol.add(*base)
    t0 = time.time()
    twin = str(sol.check())
    sample = T.value(sol.model()) if twin == 'sat' else None
    sol.add(z3.Not(M.reach_start_in(tpl.lo('phrase'), tpl.hi('phrase'))))
    r = str(sol.check())
    dt = time.time() - t0
    info = dict(queries=2, distinct=1, solver_s=round(dt, 2), validated=tot, states=M.n_states, transitions=M.n_transitions,
                bound=f'{len(phrases)} phrases x 3 casings, contexts <= {C} chars each side (any characters; no word character '
                      f'adjacent to the phrase), N={N}', samples=[{'pattern': pname, 'instance': sample, 'answer': r}])
    if twin != 'sat':
        return result('error', notes=['twin ' + twin], **info)
    if r == 'unsat':
        return result('holds', **info)
    if r != 'sat':
        return result('inconclusive', notes=[r], **info)
    w = T.value(sol.model())
    ph = tpl.chosen('phrase', sol.model())
    return result('violated', violations=[violation(f'trigger:{flag}:{ph.lower()}', f'{pname} does not match the trigger phrase {ph!r} in {w!r}',
                                                    'c10_trigger', {'text': w, 'flag': flag, 'phrase': ph})], **info)


def ob_cluster(ob):
    """real ChunkParser.gen_flags_chunk over contract warning patterns: every match lies in the context of a flag of its
    kind; flags are (flag, context) pairs of str; no more flags than matches"""
    from engine.xh import explore, choose
    import pytrs.parser.plssdesc.plss_parse as pp
    names = ('well_regex', 'depth_regex', 'including_regex', 'less_except_regex', 'isfa_regex')
    flags = ('well', 'depth', 'including', 'less_except', 'insofar')
    gaps = ob.params.get('gaps', (1, 19, 34, 36, 39, 41))
    words = (('well', 'wellbore', 'WELL'), ('depth', 'surface', 'formation'), ('including', 'incl', 'Incl'),
             ('except', 'less', 'limit'), ('insofar', 'in so far', 'only insofar'))

    class M_:
        def __init__(self, s, e):
            self.s, self.e = s, e

        def start(self, g=0):
            return self.s

        def end(self, g=0):
            return self.e

    class CP:
        def __init__(self, spans):
            self.spans = spans

        def search(self, text, pos=0, endpos=None):
            hi = len(text) if endpos is None else endpos
            for s, e in self.spans:
                if s >= pos and e <= hi:
                    return M_(s, e)
            return None

    class Parent:
        def __init__(self):
            self.w_flags = []
            self.w_flag_lines = []

    def target(which: int, k: int, g0: int, g1: int, g2: int, tail: int):
        which = choose(which, range(5))
        k = choose(k, (1, 2, 3))
        gs = [choose(g, gaps) for g in (g0, g1, g2)][:k]
        tail = choose(tail, (0, 50))
        parts = []
        spans = []
        pos = 0
        for i, g in enumerate(gs):
            parts.append('.' * g)
            pos += g
            tok = words[which][i]
            spans.append((pos, pos + len(tok)))
            parts.append(tok)
            pos += len(tok)
        parts.append('.' * tail)
        text = ''.join(parts)
        saved = {n: getattr(pp, n) for n in names}
        for i, n in enumerate(names):
            setattr(pp, n, CP(spans if i == which else []))
        try:
            cp = object.__new__(pp.ChunkParser)
            cp.text = text
            cp.parent = Parent()
            cp.gen_flags_chunk()
        finally:
            for n, v in saved.items():
                setattr(pp, n, v)
        par = cp.parent
        if len(par.w_flags) != len(par.w_flag_lines) or not (1 <= len(par.w_flags) <= k):
            return False
        for f, l in zip(par.w_flags, par.w_flag_lines):
            if f != flags[which] or not (isinstance(l, tuple) and len(l) == 2 and l[0] == f and isinstance(l[1], str)):
                return False
        for i in range(k):
            if not any(words[which][i] in l[1] for l in par.w_flag_lines):
                return False
        return True

    st = explore(target, timeout=ob.params.get('cap', 600), max_viol=3)
    info = dict(bound=f'1..3 matches of one warning pattern at gaps {gaps}, tail 0/50', samples=[{'text': '.....except....less'}])

    def mk(vs):
        out = []
        cl = lambda x, n: x if 0 <= x < n - 1 else n - 1
        for v in vs:
            a = v['args']
            which = cl(a['which'], 5)
            k = (1, 2, 3)[cl(a['k'], 3)]
            gs = [gaps[cl(a[f'g{i}'], len(gaps))] for i in range(k)]
            tail = (0, 50)[cl(a['tail'], 2)]
            text = ''.join('.' * g + words[which][i] for i, g in enumerate(gs)) + '.' * tail
            out.append(violation('gen_flags_chunk:straddling-trigger', f'gen_flags_chunk: a {flags[which]!r} trigger is in no flag context for text {text!r}; {v["exc"]}',
                                 'c10_cluster', {'text': text, 'flag': flags[which], 'words': list(words[which][:k])}))
        return out
    return from_explore(st, info, mk)


def ob_glue_flags(ob):
    from engine.xh import explore
    from props import plss_abs as P
    mmax, fill, modes = ob.params['mmax'], ob.params['fill'], ob.params['modes']

    def oracle(doc, mode, parser, exc):
        if exc is not None:
            return True          # totality is C03's subject
        return flag_verdict(doc, parser, 'segment' not in mode) is None

    st = explore(P.make_target(mmax, fill, modes, oracle), timeout=ob.params.get('cap', 900), max_viol=8)
    info = dict(bound=f'documents of 0..{mmax} segments x fillers {[P.FILLERS[f] for f in fill]} x modes {modes}',
                samples=[{'doc': 'T150N-R90W Sec 11 NE/4 ', 'mode': modes[0]}])

    def mk(vs):
        out = {}
        for v in vs:
            variants, fillers, mode = P.decode(v['args'], mmax, fill, modes)
            doc = P.build_doc(variants, fillers)
            cfg = mode_cfg(mode)
            try:
                why = flag_verdict(doc, P.run_parser(doc, mode), 'segment' not in mode)
            except Exception as e:  # noqa
                why = repr(e)
            key = 'flags:' + (why or '?').split(':')[0]
            out.setdefault(key, violation(key, f'PLSSDesc({doc.string!r}, config={cfg!r}): {why}', 'c10_flags',
                                          {'text': doc.string, 'config': cfg}))
        return list(out.values())
    return from_explore(st, info, mk)


def mode_cfg(mode):
    return {'default': '', 'colon_required': 'sec_colon_required', 'colon_cautious': 'sec_colon_cautious',
            'segment': 'segment', 'sec_within': 'sec_within', 'segment_within': 'segment,sec_within'}.get(mode, mode)


def flag_verdict(doc, parser, triggers=True):
    """None if the flag invariants hold, else a reason 'class: detail'"""
    from props.c10_ref import flags_shape, contains_all
    for name, obj in [('description', parser)] + [(f'tract {i}', t) for i, t in enumerate(parser.tracts)]:
        why = flags_shape(obj)
        if why:
            return f'shape: {name}: {why}'
    for i, t in enumerate(parser.tracts):
        for attr in ('w_flags', 'e_flags', 'w_flag_lines', 'e_flag_lines'):
            if not contains_all(getattr(t, attr), getattr(parser, attr)):
                return f'not-shared: tract {i} lacks some of the description\'s {attr}'
    if any(t.trs_is_error() for t in parser.tracts) and not parser.e_flags:
        return 'error-without-flag: a tract has an error Twp/Rge/Sec but the description has no error flag'
    if not triggers:
        return None       # 'segment' is documented as possibly preventing proper warning flags
    text = doc.string if hasattr(doc, 'string') else doc
    low = text.lower()
    for word, flag in (('wellbore', 'well'), ('less and except', 'less_except')):
        if word in low:
            if flag not in parser.w_flags:
                return f'trigger-missed: {word!r} present but no {flag!r} warning'
            if not any(f == flag and word in c.lower() for f, c in parser.w_flag_lines):
                return f'trigger-context: no {flag!r} flag line contains {word!r}'
    return None


def obligations(tier):
    q = tier == 'quick'
    from props import plss_abs as P
    obs = []
    for pname in TRIGGERS:
        obs.append(Ob(f'trigger_{pname}', 'M', ob_trigger, f'trigger phrases always match {pname}', functions=[pname], weight=4,
                      timeout=1500, params={'pattern': pname, 'ctx': 3 if q else 5, 'cap': 300 if q else 1200}))
    obs.append(Ob('cluster', 'S', ob_cluster, 'gen_flags_chunk clustering keeps every trigger in a flag context',
                  functions=['ChunkParser.gen_flags_chunk'], weight=5, timeout=3000,
                  params={'cap': 2700, 'gaps': (1, 19, 34, 36, 39, 41) if q else (0, 1, 5, 19, 21, 26, 34, 36, 38, 39, 41, 60)}))
    G = ['SecFinder.findall_matching_sec', 'TwpRgeFinder.findall_matching_twprge', 'ChunkParser.find_matches', 'ChunkParser.parse_safe',
         'ChunkParser.get_next_twprge', 'ChunkParser.get_next_sec', 'PLSSParser.hand_down_flags', 'PLSSParser.check_error_tracts',
         'PLSSParser.parse (examine_unused)', 'PLSSParser.check_sec_within_tracts', 'ChunkParser.gen_flags_chunk']
    modes = list(P.MODES)
    for mname in modes:
        obs.append(Ob(f'glue_flags_{mname}', 'S', ob_glue_flags, f'flag invariants, mode {mname}', functions=G, weight=6,
                      timeout=7000, params={'mmax': 2 if q else 3, 'fill': (0, 2, 4, 7) if q else (0, 5, 7), 'modes': [mname],
                                            'cap': 2100 if q else 6500}))
    return obs
