"""C16 shared pieces (no z3/CrossHair imports): timed runs of the real parser in an isolated worker."""
import json
import subprocess
import sys
import time

THRESHOLD = 2.0          # seconds ("a couple of seconds")
MAXLEN = 300             # "a few hundred characters"

_CHILD = r'''
import sys, time, json
import pytrs
text = json.loads(sys.stdin.read())
t0 = time.perf_counter()
pytrs.PLSSDesc(text["text"], parse_qq=True, config=text.get("config"))
print(json.dumps(time.perf_counter() - t0))
'''


def timed_parse(text, config=None, timeout=8.0):
    """wall-clock of pytrs.PLSSDesc(text, parse_qq=True) in a fresh interpreter; returns seconds or None on timeout"""
    try:
        p = subprocess.run(['/venv/bin/python', '-c', _CHILD], input=json.dumps({'text': text, 'config': config}),
                           capture_output=True, text=True, timeout=timeout, cwd='/repo')
    except subprocess.TimeoutExpired:
        return None
    try:
        return float(p.stdout.strip().splitlines()[-1])
    except Exception:  # noqa
        raise RuntimeError(f'timed worker failed: {p.stderr[-400:]}')


def slow(text, config=None, timeout=8.0):
    dt = timed_parse(text, config, timeout)
    return (dt is None or dt > THRESHOLD), dt
