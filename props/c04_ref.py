"""C04 shared pieces (no z3/CrossHair imports): which words of a text ended up nowhere"""
import re

CULL = ('of', 'the', 'in', 'and', 'all')
WORD = re.compile(r"[^\s,;:]+")


def words_of(text, spans=None):
    """[(word, start, end)] for maximal runs of non-space, non-separator characters inside the given spans"""
    out = []
    for lo, hi in (spans or [(0, len(text))]):
        for m in WORD.finditer(text, lo, hi):
            w = m.group(0).strip('.')
            if w:
                out.append((w, m.start(), m.end()))
    return out


def dropped_words(text, filler_spans, covered, loose):
    """words of the fillers that are neither covered by provenance nor present in a loose string; with a class each"""
    out = []
    for lo, hi in filler_spans:
        block = text[lo:hi].strip(' ,;:\n\t.-')
        for w, a, b in words_of(text, [(lo, hi)]):
            if all(i in covered for i in range(a, b) if text[i] == text[i] and not text[i].isspace()):
                continue
            if any(w in s for s in loose):
                continue
            if w.lower() in CULL:
                cls = 'cull-word'
            elif len(block) < 4:
                cls = 'short-block'
            else:
                cls = 'word'
            out.append((cls, w))
    return out
