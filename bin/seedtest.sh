#!/bin/bash
# bin/seedtest.sh <dir with patch.diff + demo.py> <tier> <check id> [<check id> ...]
# Validates a seeded change in a scratch worktree (suite still passes; demo fails with it and passes without), then applies it to
# /repo, runs the named checks, and restores /repo.  Development helper: not used by any registered check.
set -u
D="$1"; TIER="$2"; shift 2
WT=$(mktemp -d /tmp/seedwt.XXXXXX)
git -C /repo worktree add -q --detach "$WT" HEAD || exit 9
cleanup() { git -C /repo worktree remove --force "$WT" 2>/dev/null; git -C /repo checkout -- . ; }
trap cleanup EXIT
echo "== demo on original tree"
(cd "$WT" && PYTHONPATH="$WT" /venv/bin/python "$D/demo.py" >/dev/null 2>&1); echo "   exit=$? (want 0)"
git -C "$WT" apply "$D/patch.diff" || { echo "PATCH DOES NOT APPLY"; exit 8; }
echo "== suite with the change"
(cd "$WT" && PYTHONPATH="$WT" /venv/bin/python -m pytest -q -p no:cacheprovider 2>&1 | tail -1)
echo "== demo on changed tree"
(cd "$WT" && PYTHONPATH="$WT" /venv/bin/python "$D/demo.py" >/tmp/seedtest.demo.$$ 2>&1); rc=$?; tail -3 /tmp/seedtest.demo.$$; rm -f /tmp/seedtest.demo.$$; echo "   exit=$rc (want 1)"
git -C /repo apply "$D/patch.diff" || exit 7
for c in "$@"; do
  cp /verif/evidence/$c.json "$WT.$c.evidence" 2>/dev/null   # evidence is only ever kept from runs on the unchanged tree
  echo "== check $c ($TIER) on the changed tree"
  (cd /verif && timeout 3000 ./check "$c" --tier "$TIER" 2>&1 | grep -E "VIOLATION|KNOWN|INCONCLUSIVE|HARNESS|what:|^\[" | cut -c1-330 | head -12)
  [ -f "$WT.$c.evidence" ] && mv "$WT.$c.evidence" /verif/evidence/$c.json
done
