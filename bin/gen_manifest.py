#!/usr/bin/env python3
"""Regenerate MANIFEST.json from the table below (kept valid at all times)."""
import json
import os

ROOT = os.path.dirname(os.path.dirname(os.path.abspath(__file__)))
ALL = [f'C{i:02d}' for i in range(1, 21)]

CHECKS = {
    'C01': dict(
        engine='M+S', category='model_checking', design_ref='DESIGN.md §4 C01 and §10',
        technique='assume/guarantee: CrossHair symbolic execution of the real parsing glue on well-formed provenance documents with '
                  'contract finder patterns; z3 exact bounded regex model (finditer by induction) discharging the finder contract on the '
                  'live multisec_regex / no_num_sec_regex; rendered descriptions through the real PLSSDesc incl. the pretty_desc round trip',
        text='S: for each of the four layouts, every well-formed document (1..2 Twp/Rge groups x 1..2 section groups x 5x5 blocks x '
             'single section / through-range x colon on/off x 3 separators) parses to exactly the template\'s tracts in reading order '
             '(standardised Twp/Rge/Sec, block verbatim), the layout is deduced and no error flag is raised. M: on block . section group '
             '(6 section words, 1-2 items, 6 connectives, 3 colon spellings) . block, N <= 32 (44): searching from anywhere in the leading '
             'block the first multisec_regex match is exactly the section group with number / rightmost / colon groups on the fields, and '
             'resumed after it no match starts in the trailing block; no_num_sec_regex finds the first section word. API: rendered '
             'descriptions (3 (5) Twp/Rge spellings x 4 section words x 3 (5) blocks x separators) give the expected tracts, deduced '
             'layout, no error flag, and PLSSDesc(pretty_desc()) gives the same tracts. Twp/Rge spellings and list expansion are C08 / C05.',
        note='Blocks in M: letters (no s), fraction signs, slash, comma, space, digits not in first position, not beginning with a list '
             'connective. A block that starts with a number after the colon is read as another section (known finding, reported as '
             'KNOWN-FINDING). The composition of the lemmas is a paper argument, cross-checked by the API obligations. k > 2 groups are outside.'),
    'C02': dict(
        engine='S', category='other', design_ref='DESIGN.md §4 C02',
        technique='CrossHair symbolic execution of the real parse_aliquot with symbolic depth integers / break_halves / component '
                  'indices, path tree exhausted; exact-fraction geometric tiling oracle per path',
        text='Every chain of 1..3 (quick) / 1..4 (thorough) halves and quarters in any order (same-axis, cross-axis, quarter '
             'before half) plus ALL alone, with qq_depth_min 1..3, qq_depth_max None or min..min+2, qq_depth None or 1..3 and '
             'break_halves on/off: the returned pieces are pairwise disjoint, inside the described region (halvings beyond '
             'qq_depth_max per axis ignored), their areas add up to it, each has its largest `min` components quarters, none is '
             'deeper than max, none contains a half under break_halves.',
        note='Chain shapes are a finite enumeration (one CrossHair path per chain x settings class); the depth integers are '
             'symbolic (folded into range by modulo). Text is the canonical rendering; ALL mixed into a chain is unreachable '
             'through the public API and excluded. Oracle: spec/aliquot_spec.py.'),
    'C03': dict(
        engine='S', category='other', design_ref='DESIGN.md §4 C03',
        technique='CrossHair symbolic execution of the real plss_parse glue on documents with provenance and contract finder '
                  'patterns (symbolic document shape and parse mode), of the real PLSSDesc / Tract on token sequences, and of '
                  'invalid-argument calls; path tree exhausted',
        text='(1) For every document of 0..2 (quick) / 0..3 (thorough) labelled segments (Twp/Rge | section with/without colon | '
             'multi-section range / list) separated by fillers from a table (empty, connector "of", short block, ordinary block, '
             'cull-word block, comma, trigger words, ...) under each of 11 parse modes (default, both colon modes, segment, '
             'sec_within, both, five forced layouts) the real PLSSParser returns without raising and yields >= 1 tract. (2) real '
             'PLSSDesc / Tract on all sequences of 3 (2 for Tract) vocabulary tokens x separators x configs never raise. (3) 28 '
             'invalid-argument calls raise exactly the documented exception type.',
        note='The finder patterns are contract stubs in (1); their contract (canonical text -> exactly the labelled segments) is '
             'the L-EXACT family of C01. Document invariant from the preprocessor: a Twp/Rge is followed by >= 1 character unless '
             'it ends the text. Strings outside the vocabulary, unicode, and >3 segments are outside the bound.'),
    'C04': dict(
        engine='S+M', category='other', design_ref='DESIGN.md §4 C04',
        technique='CrossHair symbolic execution of the real marker walk / chunker / rebuild_sec_within / cleanup_desc / examine_unused '
                  'on provenance documents (every filler word accounted for by provenance); z3 exact bounded regex model of the live '
                  'preprocessing patterns (a substitution never reaches into a following prose word)',
        text='S: for every document of the bounded family under all 11 parse modes, each word of each filler ends up, by document '
             'index, inside a tract description or inside the context of an unused_desc error flag. M: for each of the six '
             'SCRUBBER_REGEXES, on Twp/Rge (3x4x7x4 spelling combinations, symbolic 1-3 digit numbers) + separator + lower-case prose '
             '(<= 5 / 10 chars), N <= 32 / 44: the match never extends into the prose; for pp_twprge_pm additionally: a P.M. '
             'designation never starts or ends inside a word.',
        note='Three by-design drops are listed as known findings and reported as KNOWN-FINDING: trailing cull words cut by '
             'cleanup_desc, unused blocks shorter than 4 characters, and up to 25 characters between a Twp/Rge and a P.M. '
             'designation. Any other lost word is a VIOLATION. Contract finder patterns as in C03.'),
    'C05': dict(
        engine='M+S', category='model_checking', design_ref='DESIGN.md §4 C05',
        technique='SMT (z3): exact bounded encoding of CPython matching of the live multisec_regex / multilot_regex incl. endpos '
                  '(engine M) for the list contract; CrossHair symbolic execution of the real SecUnpacker / LotUnpacker loops over '
                  'the proved contract and of the public API on rendered lists',
        text='M: for every section / lot list of 1-2 items (quick; 3 thorough) over 9 keyword spellings x 12 connectives x optional '
             'repeated keyword x symbolic 1-2 (1-3) digit numbers x colon spelling, N <= 30 (40): the live pattern matches the whole '
             'list with first / rightmost number groups on the first / last number and the intervener group at a fixed offset in the '
             'last connective; cut there (endpos) it matches exactly the list without its last item. S: the real right-to-left loops '
             'over a contract pattern with that behaviour return the denoted sequence (ranges expanded inclusively in their stated '
             'direction, reading order, duplicates kept) with a nonsequential warning for a descending range; find_sec, PLSSDesc '
             'tract order / shared description, Tract.lots and .ilots agree with it on rendered lists.',
        note='Numbers in S come from boundary sets (formatting concretises them). Chained ranges (a - b - c) are outside the oracle. '
             'A warning on an equal-endpoint "range" (2 - 2) is tolerated (the statement only requires it for descending ranges).'),
    'C06': dict(
        engine='S+M', category='other', design_ref='DESIGN.md §4 C06 and §10',
        technique='CrossHair symbolic execution of the real Tract / TractParser / LotUnpacker on descriptions assembled from a canonical '
                  'element vocabulary (symbolic choice of elements, separators, configuration) against an element-wise oracle; z3 exact '
                  'bounded regex model for the live extraction patterns on element . separator . element',
        text='Every description of 2 (thorough: 3) elements out of 14 (single lot, lot range, lots with (acreage) / [acreage], '
             'aliquot-of-lot(s) with and without "of", aliquot chains, ALL; repeats included) x 4 separators x 5 configurations: lots then '
             'aliquots equal the concatenation of what each element yields alone; lot_acres is the union; lots_qqs = lots + qqs; ilots '
             'mirrors lots; a dup_lot / dup_qq warning is present exactly when a lot / aliquot occurs twice. M: aliquot_unpacker_regex and '
             'multilot_with_aliquot_regex take comma / semicolon / ";;" separated canonical elements one at a time.',
        note='Two deviations are known findings and reported as KNOWN-FINDING: a line break does not separate an aliquot from what follows '
             '(by design for wrapped text) and ALL is only recognised at the end of the text. Elements are canonical text (spelling is C07).'),
    'C07': dict(
        engine='M+S', category='model_checking', design_ref='DESIGN.md §4 C07 and §10',
        technique='SMT (z3): exact bounded encoding of CPython matching of the 12 live aliquot scrubber patterns, half_plus_q_regex and '
                  'aliquot_intervener_remover_regex on spelling templates (engine M); CrossHair symbolic execution of rendered chains '
                  'through the real Tract',
        text='M: for each of the 8 components, every documented spelling (10 per component, 3 casings) in contexts of <= 2 (4) characters '
             'is matched exactly by its scrubber; no other basic scrubber matches inside it; on canonical chains of 1-3 components every '
             'scrubber (basic and clean_qq) can only re-match a canonical token of its own component (identity substitution); '
             'half_plus_q_regex and aliquot_intervener_remover_regex put their groups on the components for 6 joiners. S: single '
             'components (all spellings x casings x 5 configs) and two-component chains (independent spelling per component incl. the '
             'bare quarter where allowed, 4 joiners, clean_qq on/off; thorough: all 64 component pairs x all spelling pairs x 5 configs) '
             'give a pp_desc containing the canonical text, the same lots / aliquots as the canonical text, and a fixed point on a second '
             'pass; a bare two-letter quarter is an aliquot exactly under clean_qq or directly after a half.',
        note='The substitute-until-stable glue calls re.sub with compiled patterns and cannot take contract stubs; its composition is '
             'covered by the rendered chains. Chains of 3+ components and spellings outside spec/aliquot_spellings.py are outside.'),
    'C08': dict(
        engine='M+S', category='model_checking', design_ref='DESIGN.md §4 C08',
        technique='SMT (z3): exact bounded encoding of CPython matching of the live twprge_regex and pp_twprge_* patterns on '
                  'spelling templates (engine M); CrossHair symbolic execution of unpack_twprge, of the default-direction '
                  'precedence through parse / preprocess / find_twprge, and of rendered spellings through the public API',
        text='M: each of the nine documented Twp/Rge forms (3 casings, symbolic 1-3 digit numbers, both directions, the lone-2 range '
             'rule) inside contexts of <= 3 (5) characters is matched by the live twprge_regex as a whole, with the number and '
             'direction groups on the written fields; every later scrubber re-matches the canonical T154N-R97W form with the same '
             'fields (taking at most trailing dead space); forms lacking N/S and/or E/W are not claimed by twprge_regex and are '
             'matched by pp_twprge_no_nswe with that group absent. S: unpack_twprge drops leading zeros, keeps an explicit direction, '
             'uses the default only for an absent group (keyword, else MasterConfig), maps OCR look-alikes under ocr_scrub; through '
             'PLSSDesc.parse / preprocess / find_twprge a missing direction is filled by keyword > config > MasterConfig, raises '
             'fixed_twprge, and gives the same tracts as the written-out form; rendered spellings give the canonical pp_desc, '
             'find_twprge result and tract Twp/Rge.',
        note='Context alphabet excludes n s e w t (it cannot contain a direction or the optional leading T). Forms outside Appendix A '
             'and Unicode digits are outside the claim. Numbers in S come from small tables.'),
    'C09': dict(
        engine='S', category='other', design_ref='DESIGN.md §4 C09',
        technique='CrossHair symbolic execution of the real tract-construction glue (construct_tracts, get_next_twprge/sec, '
                  'SecUnpacker, unpack_twprge, Tract, TRS) on provenance documents with contract finder patterns; path tree exhausted',
        text='For every document of the bounded family (0..2 / 0..3 segments incl. 3-digit sections, fillers, 8 (quick) / 11 parse '
             'modes) every produced tract has a Twp/Rge/Sec that is in the standard form or built from error placeholders, never '
             'undefined; twp/rge/sec/numbers/directions/twprge are exactly the decomposition of that string (spec/trs_spec.py); '
             'its Twp/Rge and section occur in the text; it records the complete original text, the source tag and its 0-based '
             'creation index. Tract(trs=s) decomposes every combination of valid / error / undefined components.',
        note='Contract finder patterns as in C03 (contract = L-EXACT family of C01). Depends on C12 for the strictness of the '
             'standard form.'),
    'C10': dict(
        engine='S+M', category='other', design_ref='DESIGN.md §4 C10',
        technique='CrossHair symbolic execution of the real flag-producing glue on provenance documents with contract finder '
                  'patterns and of gen_flags_chunk on contract warning patterns; z3 exact bounded regex model (engine M) for the '
                  'trigger phrases on the live warning patterns',
        text='On every document of the bounded family (0..2 / 0..3 segments x fillers incl. trigger words x 11 parse modes): '
             'w_flags/e_flags are lists of str paired one-to-one with (flag, context) tuples of str on the description and on '
             'every tract; every description flag is on every tract; an error Twp/Rge/Sec on any tract implies an error flag; '
             'trigger words in the text give their warning with the words in the context (not asserted under segment, which is '
             'documented to lose warnings). gen_flags_chunk: for 1..3 matches at distances around the context-window sizes every '
             'match is inside a flag context. M: each trigger phrase of Appendix A (3 casings) in any context of <= 3 (5) '
             'characters is matched by its live warning pattern.',
        note='Contract finder patterns as in C03. Trigger phrase tables are the oracle. "less & except" is accepted through its '
             'first word. Flags raised by Tract parsing (dup_lot etc.) are shape-checked in C14/C06 harnesses.'),
    'C11': dict(
        engine='S', category='other', design_ref='DESIGN.md §4 C11',
        technique='CrossHair symbolic execution of the real layout hand-over (PLSSDesc -> PLSSParser -> ChunkParser) with symbolic '
                  'channel, and of the copy_all / fallback branches of ChunkParser on provenance documents with contract finder patterns',
        text='(i) copy_all requested through the init keyword, the config string, .config assignment or parse(layout=) with and '
             'without commit, combined with 5 other settings, on 6 texts: exactly one tract whose description is the whole '
             'preprocessed text. (ii) on the bounded document family under 11 modes: forced copy_all gives one tract with the entire '
             'text; when the layout is deduced and the document has no Twp/Rge or no section segment, exactly one tract carries the '
             'whole text and an error flag is present; in every mode no two tracts carry the complete text.',
        note='"Entire text" for a deduced-layout fallback is compared up to the separators / cull words that clean-up strips at the '
             'edges. Forced non-copy_all layouts are the user\'s mandate and are not expected to fall back. Contract patterns as in C03.'),
    'C12': dict(
        engine='M+Z+S', category='model_checking', design_ref='DESIGN.md §4 C12',
        technique='SMT (z3): exact bounded encoding of re matching + regular-language inclusion on the live unpacker '
                  'pattern; CrossHair symbolic execution of construct_trs / trs_to_dict',
        text='Strictness: z3 decides over ALL strings (length <= 12 quick / 16 thorough, exact CPython match semantics; '
             'and at unbounded length on the regular language) that only standard-form strings are decomposed; round '
             'trip: all standard-form strings are matched whole with groups = components; construct_trs / '
             'from_twprgesec / TRS attributes are explored by CrossHair over all input encodings x boundary numbers '
             '(quick) or full 0..999 / 0..99 sweeps (thorough) x default spellings x MasterConfig values.',
        note='Trusted: z3, CrossHair, re._parser as reading of the compiled pattern, the M encoding (validated against '
             're on each run), spec/trs_spec.py. Numbers in construct_trs are enumerated (formatting concretises them). '
             'A missing section yielding the error section (TRS("154n97w") -> "154n97wXX") is accepted as an error '
             'placeholder, not a violation. Floor: N=12.'),
    'C16': dict(
        engine='A+S', category='model_checking', design_ref='DESIGN.md §4 C16',
        technique='SMT (z3) search over the NFA of every live pattern for exponential-ambiguity witnesses and polynomial loop '
                  'chains; each witness confirmed by timing the real parser in an isolated interpreter; CrossHair bound on '
                  'text growth of the substitution loop',
        text='For each of the 44 compiled patterns used on the parse path z3 decides whether an exponential-ambiguity witness '
             'with pump length <= 3 (quick) / 6 (thorough) or a chain of >= 4 positions looping on one character exists; '
             'every witness is turned into a <= 300-character description and counts only if pytrs.PLSSDesc(text, '
             'parse_qq=True) then needs more than 2 s; plss_preprocess.sub_scrubber is bounded to linear growth for up to 3 '
             '(possibly identical) matches.',
        note='Partly reachable: the cost model of CPython\'s sre engine is not encoded; zero-width assertions are ignored in the '
             'ambiguity search (candidates are filtered by replay); quadratic blow-ups and pumps longer than K are outside. '
             'Six patterns are confirmed slow on the pinned tree and listed in known_findings.jsonl, keyed by pattern, witness '
             'kind and class of pump (white space / through-word / punctuation): exponential witnesses are searched class by '
             'class so that a further ambiguity of an already listed pattern, or any other pattern becoming slow, is a VIOLATION.'),
    'C17': dict(
        engine='S', category='other', design_ref='DESIGN.md §4 C17',
        technique='CrossHair (z3-backed symbolic execution) of the real custom_sort/_sort_custom over symbolic element '
                  'attributes, path tree exhausted, compared per path with a reference stable multi-key sort',
        text='For each key string of a table (12 variable/sub-method forms x plain/.rev/.reverse, multi-key strings with '
             'spacing and case variants) the Twp/Rge/Sec numbers, directions (n/s/e/w or error), section and creation '
             'counter of 3 elements (2 for two-direction multi-keys in quick; 3-4 in thorough) are symbolic; CrossHair '
             'exhausts every ordering/tie/error pattern through the real sort and the result must equal folding stable '
             'sorts left to right with errors ranked last (first when reversed). Unknown variables / inapplicable '
             'directions must raise ValueError.',
        note='Elements are Tract/TRS subclasses bypassing __init__ (attributes injected); numbers 0..999; key strings from a '
             'table, not symbolic. Keys that merely contain a legal letter (e.g. "z.rev") are interpreted with a SyntaxWarning '
             'by design and are not counted as violations.'),
    'C18': dict(
        engine='S', category='other', design_ref='DESIGN.md §4 C18',
        technique='CrossHair symbolic execution of the real filter / filter_errors / filter_duplicates / group_by / '
                  'group_by_nested / unpack_group / construction paths, path tree exhausted, partition oracle per path',
        text='List length (0..3 quick, 0..4 thorough), predicate truth table, drop flag, element kinds, shared instances, '
             'attribute values and attribute-list orders are symbolic; every path through the real container code is '
             'compared with an order-preserving-partition oracle; construction through ctor, extend, +=, +, append, insert, '
             '__setitem__, from_multiple (flat and nested) must keep every element in order (converted to TRS for a TRSList) '
             'or raise TypeError.',
        note='filter/group use injected-attribute Tract subclasses; filter_errors/filter_duplicates/construction use real Tract/'
             'TRS/PLSSDesc objects chosen by symbolic index from small tables. PLSSDesc is an acceptable *source* for '
             'from_multiple (documented) and contributes its tracts.'),
    'C19': dict(
        engine='S', category='other', design_ref='DESIGN.md §4 C19',
        technique='CrossHair symbolic execution of the real export methods (to_dict/to_list, tracts_to_dict/list, iter_*, '
                  'tracts_to_csv, TractWriter) over symbolic choices of description, attribute-name lists, header option and '
                  'file mode; path tree exhausted; csv.writer/open replaced by in-memory recorders',
        text='Every name in Tract.ATTRIBUTES plus unknown names, alone and in lists of 2 (3 thorough) in any order, through '
             'every record path and both csv writers (new file / append, 4 header options), on a corpus whose tracts carry '
             'lots with acreages, lot divisions, duplicate lots, flags with context tuples, multi-line text, commas and '
             'quotes: one record/row per tract in order, values equal to getattr (or the "n/a" placeholder), list/dict '
             'cells joined into one string, header row iff a new file.',
        note='The C csv module (quoting) and the file system are outside the encoding: they are exercised only when a '
             'counterexample is replayed (real file written and read back with csv.reader). Tract contents come from 4 '
             'concrete descriptions; the symbolic part is the choice structure.'),
    'C13': dict(
        engine='S', category='other', design_ref='DESIGN.md §4 C13',
        technique='CrossHair symbolic execution of the real Config / PLSSDesc / Tract code with symbolic config-string '
                  'values, parse() keyword values and channel; path tree exhausted; reference = same settings in the config string',
        text='(i) Config.from_dict -> decompile_to_text -> Config(text) -> Config(Config) is the identity for every '
             'assignment of groups of 4 (quick) to 6 (thorough) settings covering all 16 names (booleans unset/True/False, '
             'directions in 4 spellings, 5 layouts, depths), and 17 near-miss names x contexts raise ValueError. (ii)+(iii) '
             'for each group of interacting settings (parse_qq/clean_qq, the two colon modes, break_halves/ocr_scrub, '
             'segment/sec_within, default_ns/ew, layout/segment, the three depths, wait_to_parse/suppress_lot_divs) every '
             'combination of config value x keyword value x channel (config at creation | assigned to .config | keyword) '
             'gives, on descriptions where the setting matters, exactly the committed result of the same effective '
             'settings written into the config string (keyword > config), for PLSSDesc and for Tract.',
        note='Descriptions are concrete (7-text corpus); depths from {None,1,2,3}, max<min excluded (documented unsupported). '
             'MasterConfig precedence for default directions is covered under C08/C15. The reference is the config-string '
             'channel of the same code, so a defect common to all channels is not visible here (C01/C06/C20 cover effects).'),
    'C14': dict(
        engine='S', category='other', design_ref='DESIGN.md §4 C14',
        technique='CrossHair symbolic execution of real PLSSDesc / Tract operation histories (symbolic kinds, commit flags, '
                  'Optional[bool] keywords), path tree exhausted; compared with a history reference model on a fresh object',
        text='Histories of 2 operations (quick) and 3 (thorough, sharded by first kind) over parse / parse_tracts / preprocess / '
             'config assignment / sort / filter-drop for PLSSDesc and parse(kw) / parse() / preprocess / config assignment for '
             'Tract: after every commit=False step the snapshot of all public attributes (tracts, lots, aliquots, acreages, '
             'flags and flag lines, settings, layout, pp_desc) is unchanged; the final snapshot equals a fresh object given the '
             'accumulated config, the last committed parse and the de-duplicated later operations (no accumulation, committed '
             'parse replaces).',
        note='One concrete description and one tract description chosen to raise duplicate / nonsequential / acreage / trigger-word '
             'flags. Quick fixes the second keyword to None. The reference model (props/c14_ref.py) is part of the trusted base.'),
    'C15': dict(
        engine='S', category='other', design_ref='DESIGN.md §4 C15',
        technique='CrossHair symbolic execution over prior-activity sequences (symbolic operation kinds, path tree exhausted); the '
                  'chosen operations and all probes then run concretely through the real library; probe observables compared with '
                  'the empty-history baseline, the defaults probe with values from the specification',
        text='For 17 probes (TRS strings incl. error / undefined / near-miss / empty, tract descriptions, PLSS descriptions incl. '
             'missing directions and OCR look-alikes, Twp/Rge built from direction-less numbers under four pairs of MasterConfig '
             'defaults) and every sequence of 1-2 (quick) / 3-4 (thorough) prior operations out of 10 kinds (other parses, '
             'MasterConfig changed and restored, objects created under other defaults, TRS cache cleared / disabled / enabled / '
             'pre-warmed, dicts and lists returned by trs_to_dict / to_dict / tracts_to_dict / tracts_to_list / list_trs mutated) '
             'the probe result equals the empty-history result and MasterConfig is as before.',
        note='Baseline is computed in the worker process before any operation; a fresh interpreter is used by the replay. '
             'Operations and probes run outside CrossHair tracing because CrossHair bypasses functools.lru_cache under tracing '
             '(a leaking memo would be invisible); inputs are concrete, only the choice of operations is symbolic. '
             'The private TRS.__CACHE is not written to directly (only through the public API and _clear_cache/_USE_CACHE).'),
    'C20': dict(
        engine='S+M', category='other', design_ref='DESIGN.md §4 C20',
        technique='CrossHair symbolic execution of the real PLSSChunker / SecFinder / marker walk / rebuild_sec_within under pairs of '
                  'parse modes on symbolic well-formed documents (contract finder patterns); z3 exact bounded regex model for the '
                  'colon group of the live multisec_regex',
        text='For every well-formed single-layout document (4 layouts x 1..2 Twp/Rge groups x 1..2 section groups x blocks x single '
             'section / through-range x colon on/off x 3 separators): default and segment both give exactly the template\'s expected '
             'tracts with no error flag; with every section followed by a colon the three colon modes give identical tracts and '
             'warnings; with no colon, cautious = default tracts + a pulled_sec_without_colon warning and required = one fallback '
             'tract with the whole text; sec_within (3 leads x section|range x 3 trails x 3 Twp/Rge placements) joins leading and '
             'trailing text in order into the section\'s tract(s) with a sec_within warning. M: on section word x 1-2 items x 5 '
             'connectives x colon spelling x following block (N <= 28 / 36) the colon group participates iff a colon follows.',
        note='Expected tracts come from props/wf_docs.py (written from the documented layouts). Blocks in the M template start with a '
             'letter and contain no section word or digit (a digit-leading block is the known defect of C01/C05).'),
}

NOT_YET = 'check not built yet in this round (see DESIGN.md §9 build order)'
NA = {}


def main():
    checks = []
    for pid in ALL:
        if pid not in CHECKS:
            continue
        c = CHECKS[pid]
        checks.append({
            'property_id': pid,
            'quick_cmd': f'./check {pid} --tier quick',
            'thorough_cmd': f'./check {pid} --tier thorough',
            'evidence_file': f'/verif/evidence/{pid}.json',
            'replay_cmd_template': f'./check {pid} --replay {{path}}',
            'engine': c['engine'],
            'level_claimed': {'category': c['category'], 'text': c['text'], 'design_ref': c['design_ref']},
            'level_note': c['note'],
            'technique': c['technique'],
        })
    na = [{'property_id': p, 'reason': NA.get(p, NOT_YET)} for p in ALL if p not in CHECKS]
    m = {
        'version': 1,
        'setup_cmd': 'bin/ensure_env',
        'hooks': {
            'guard': 'PYTRS_VERIF',
            'enable': 'PYTRS_VERIF=1 is exported by the check workers; no guarded hook exists in /repo at present '
                      '(all stubs are installed from the harness by rebinding names for the duration of one path)',
            'baseline_off_cmd': 'cd /repo && env -u PYTRS_VERIF /venv/bin/python -m pytest -ra -q -p no:cacheprovider '
                                '--timeout=900 --continue-on-collection-errors',
            'source_commits': [],
            'add_only': True,
        },
        'engines': [
            {'name': 'Z', 'path': 'engine/rx.py', 'serves_properties': sorted(p for p, c in CHECKS.items() if 'Z' in c['engine']),
             'kind_free_text': 'sre parse tree of the live compiled pattern -> z3 regular expression; inclusion / emptiness queries, unbounded length'},
            {'name': 'M', 'path': 'engine/matcher.py', 'serves_properties': sorted(p for p, c in CHECKS.items() if 'M' in c['engine']),
             'kind_free_text': 'exact bounded SMT model of CPython re matching (prioritised Thompson NFA, Reach/On booleans over a symbolic character array)'},
            {'name': 'A', 'path': 'engine/ambig.py', 'serves_properties': sorted(p for p, c in CHECKS.items() if 'A' in c['engine'].split('+')),
             'kind_free_text': 'z3 search for exponential-ambiguity witnesses over the pattern NFA'},
            {'name': 'S', 'path': 'engine/xh.py', 'serves_properties': sorted(p for p, c in CHECKS.items() if 'S' in c['engine']),
             'kind_free_text': 'CrossHair (z3-backed symbolic execution) explore_paths over the real pyTRS functions until the path tree is exhausted'},
        ],
        'checks': checks,
        'not_applicable': na,
        'notes': 'Exit codes: 0 held / 1 VIOLATION / 2 INCONCLUSIVE (an obligation undecided at its floor bound) / 3 harness '
                 'error (translator validation or replay disagreement). Only 0 and 1 are interface outcomes.',
    }
    with open(os.path.join(ROOT, 'MANIFEST.json'), 'w') as f:
        json.dump(m, f, indent=1)
    try:
        import jsonschema
        jsonschema.validate(m, json.load(open('/root/.vp/MANIFEST.schema.json')))
        print('MANIFEST.json valid;', len(checks), 'checks,', len(na), 'not_applicable')
    except ImportError:
        print('MANIFEST.json written (jsonschema not available to validate)')


if __name__ == '__main__':
    main()
