import sys
from engine.framework import worker_main
if __name__ == '__main__':
    worker_main(sys.argv[1:])
