"""ambig.py -- engine A: z3 search for super-linear backtracking witnesses in the NFA of a live pattern.

* EDA (exponential degree of ambiguity): a char position p and a pump word w (|w| <= K) with two *different* position
  sequences p -> ... -> p that both read w.
* polynomial chain: k distinct char positions q1..qk that all loop on one character c, each reachable from the previous
  one while reading only c's (degree >= k-1 backtracking on a run of c's followed by a failure).

`follow` ignores zero-width assertions, so a witness is only a *candidate*; the caller confirms it by timing the real
pattern / the real PLSSDesc on prefix + pump^n + suffix."""
import time
from collections import deque

import z3

from .rx import compile_nfa, UCHARS
from .matcher import inset


class Amb:
    def __init__(self, pattern):
        self.p = pattern
        self.nfa, self.start, self.acc = compile_nfa(pattern)
        nfa = self.nfa
        self.pos = sorted(nfa.ch.keys())
        self.follow = {p: self._closure(nfa.ch[p][1])[0] for p in self.pos}
        self.first = self._closure(self.start)[0]
        names = {v: k for k, v in pattern.groupindex.items()}
        self.group_of = {}
        for p in self.pos:
            named = [names[g] for g in nfa.chgrp.get(p, ()) if g in names]
            self.group_of[p] = named[-1] if named else (f'group{nfa.chgrp[p][-1]}' if nfa.chgrp.get(p) else 'top')

    def _closure(self, q):
        nfa = self.nfa
        seen = set()
        st = [q]
        out = []
        accepting = False
        while st:
            x = st.pop()
            if x in seen:
                continue
            seen.add(x)
            if x == self.acc:
                accepting = True
            if x in nfa.ch:
                out.append(x)
            for k, d, t in nfa.eps[x]:
                st.append(t)
        return sorted(out), accepting

    # ------------------------------------------------------------------ EDA
    def eda(self, K=4, exclude_groups=(), timeout=120, exclude_states=(), exclude_chars=()):
        nfa, pos, follow = self.nfa, self.pos, self.follow
        cand = [p for p in pos if self.group_of[p] not in exclude_groups and p not in exclude_states]
        if not cand:
            return 'unsat', 0.0, None
        s = z3.Solver()
        s.set('timeout', int(timeout * 1000))
        k = z3.Int('k')
        s.add(k >= 1, k <= K)
        a = [z3.Int(f'a{i}') for i in range(K + 1)]
        b = [z3.Int(f'b{i}') for i in range(K + 1)]
        w = [z3.Int(f'w{i}') for i in range(K)]
        s.add(a[0] == b[0], z3.Or(*[a[0] == p for p in cand]))
        for i in range(K + 1):
            s.add(z3.Or(*[a[i] == p for p in pos]), z3.Or(*[b[i] == p for p in pos]))
        alphabet = [c for c in UCHARS if c not in exclude_chars]
        for i in range(K):
            s.add(inset(w[i], alphabet))
            for p in pos:
                cs = nfa.ch[p][0]
                nxt_a = z3.Or(*[a[i + 1] == t for t in follow[p]]) if follow[p] else z3.BoolVal(False)
                nxt_b = z3.Or(*[b[i + 1] == t for t in follow[p]]) if follow[p] else z3.BoolVal(False)
                s.add(z3.Implies(z3.And(k > i, a[i] == p), z3.And(inset(w[i], cs), nxt_a)))
                s.add(z3.Implies(z3.And(k > i, b[i] == p), z3.And(inset(w[i], cs), nxt_b)))
        s.add(z3.Or(*[z3.And(k == j, a[j] == a[0], b[j] == a[0],
                             z3.Or(*[a[i] != b[i] for i in range(1, j)]) if j > 1 else z3.BoolVal(False))
                      for j in range(1, K + 1)]))
        t0 = time.time()
        r = str(s.check())
        dt = time.time() - t0
        if r != 'sat':
            return r, dt, None
        m = s.model()
        kk = m.eval(k).as_long()
        p0 = m.eval(a[0]).as_long()
        return r, dt, {'kind': 'eda', 'state': p0, 'group': self.group_of[p0],
                       'pump': ''.join(chr(m.eval(w[i], model_completion=True).as_long()) for i in range(kk)),
                       'path_a': [m.eval(a[i]).as_long() for i in range(kk + 1)],
                       'path_b': [m.eval(b[i]).as_long() for i in range(kk + 1)]}

    # ------------------------------------------------------------------ polynomial chain on a single character
    def chain(self, k=4, exclude_groups=(), timeout=120, hops=3, exclude_states=()):
        """k distinct self-looping positions on one character c, consecutive ones linked by <= hops c-steps"""
        nfa, pos, follow = self.nfa, self.pos, self.follow
        loops = [p for p in pos if p in follow[p]]
        cand0 = [p for p in loops if self.group_of[p] not in exclude_groups and p not in exclude_states]
        if len(loops) < k or not cand0:
            return 'unsat', 0.0, None
        s = z3.Solver()
        s.set('timeout', int(timeout * 1000))
        c = z3.Int('c')
        s.add(inset(c, UCHARS))
        q = [z3.Int(f'q{i}') for i in range(k)]
        s.add(z3.Or(*[q[0] == p for p in cand0]))
        for i in range(k):
            s.add(z3.Or(*[z3.And(q[i] == p, inset(c, nfa.ch[p][0])) for p in loops]))
        s.add(z3.Distinct(*q))
        for i in range(k - 1):
            h = [z3.Int(f'h{i}_{j}') for j in range(hops + 1)]
            s.add(h[0] == q[i])
            steps = []
            for j in range(hops):
                # either already arrived (stutter) or one more c-step along follow
                step = z3.Or(h[j + 1] == h[j],
                             *[z3.And(h[j] == p, z3.Or(*[z3.And(h[j + 1] == t, inset(c, nfa.ch[t][0])) for t in follow[p]]))
                               for p in pos if follow[p]])
                steps.append(step)
            s.add(*steps)
            s.add(h[hops] == q[i + 1])
        t0 = time.time()
        r = str(s.check())
        dt = time.time() - t0
        if r != 'sat':
            return r, dt, None
        m = s.model()
        qs = [m.eval(x).as_long() for x in q]
        return r, dt, {'kind': 'chain', 'state': qs[0], 'group': self.group_of[qs[0]],
                       'groups': [self.group_of[x] for x in qs], 'pump': chr(m.eval(c).as_long()), 'chain': qs}

    # ------------------------------------------------------------------ building concrete inputs
    def prefix_to(self, state):
        """shortest string driving the NFA from its start to char position `state` (assertions ignored)"""
        nfa = self.nfa
        prev = {}
        dq = deque()
        for p in self.first:
            prev[p] = (None, '')
            dq.append(p)
        while dq:
            p = dq.popleft()
            if p == state:
                break
            cs = nfa.ch[p][0]
            if not cs:      # a character outside the bounded alphabet: no step through this position
                continue
            ch = self._pick_char(cs)
            for t in self.follow[p]:
                if t not in prev:
                    prev[t] = (p, ch)
                    dq.append(t)
        if state not in prev:
            return None
        out = []
        x = state
        while prev[x][0] is not None:
            out.append(prev[x][1])
            x = prev[x][0]
        return ''.join(reversed(out))

    @staticmethod
    def _pick_char(cs):
        for pref in '1aNT .,':
            if pref in cs:
                return pref
        return sorted(cs)[0]
