"""runner.py -- `python -m engine.runner CNN --tier quick|thorough [--only ob1,ob2]`"""
import argparse
import importlib
import os
import sys

from engine.framework import main_check, run_replay


def main():
    ap = argparse.ArgumentParser()
    ap.add_argument('prop')
    ap.add_argument('--tier', default=os.environ.get('VERIF_TIER', 'quick'))
    ap.add_argument('--replay')
    ap.add_argument('--only')
    a = ap.parse_args()
    prop = a.prop.upper()
    if a.replay:
        rep, out = run_replay(a.replay)
        print(out)
        if rep is True:
            print(f'VIOLATION property={prop} replay={a.replay}')
            sys.exit(1)
        sys.exit(0 if rep is False else 3)
    seed = int(os.environ.get('VERIF_SEED', '0') or 0)
    mod = importlib.import_module(f'props.{prop.lower()}')
    only = a.only
    sys.exit(main_check(prop, a.tier, seed, mod, only=only))


if __name__ == '__main__':
    main()
