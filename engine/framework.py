"""framework.py -- obligations, worker protocol, runner, replay, known findings, evidence.

A property module `props/cNN.py` exposes

    PROPERTY = 'CNN'
    LEVEL = 'model_checking' | 'other' | ...
    def obligations(tier) -> list[Ob]

Each `Ob` is run in its own worker process (`python -m engine.worker CNN <name> <tier>`), returns a JSON result.
The runner schedules workers on all cores, replays every candidate violation through the public API in a fresh
/venv/bin/python process (no CrossHair, no stubs), consults known_findings.jsonl, writes evidence, prints the
interface lines and decides the exit code:

    0  every obligation decided, no unlisted violation
    1  >= 1 reproduced violation not listed as known  (prints VIOLATION property=<id> replay=<path>)
    2  an obligation could not be decided at its floor bound (prints INCONCLUSIVE ...)
    3  harness error (translator validation disagrees with re, replay does not reproduce, vacuity twin passed)
"""
import hashlib
import json
import os
import subprocess
import sys
import time
import traceback

ROOT = os.path.dirname(os.path.dirname(os.path.abspath(__file__)))
REPO = '/repo'
PY_S = os.path.join(ROOT, '.venv', 'bin', 'python')
PY_PLAIN = '/venv/bin/python'


class Ob:
    """one obligation.  fn(ob) -> result dict (see `result`)."""

    def __init__(self, name, engine, fn, desc='', weight=1, timeout=900, functions=(), params=None):
        self.name = name
        self.engine = engine
        self.fn = fn
        self.desc = desc
        self.weight = weight          # rough cost, for scheduling order (heavier first)
        self.timeout = timeout        # hard wall cap for the worker process
        self.functions = list(functions)
        self.params = params or {}


def result(verdict, **kw):
    """verdict: holds | violated | inconclusive | error"""
    r = {'verdict': verdict, 'queries': 0, 'paths': 0, 'solver_s': 0.0, 'states': 0, 'transitions': 0,
         'validated': 0, 'samples': [], 'violations': [], 'bound': '', 'assumptions': [], 'notes': []}
    r.update(kw)
    return r


def from_explore(st, info, mk_violations=None):
    """map an engine-S exploration summary (engine.xh.explore) to a result"""
    info = dict(info)
    info.setdefault('paths', st['paths'])
    info.setdefault('distinct', st['paths'])
    notes = list(info.pop('notes', [])) + [f"ignored={st['ignored']}", f"exhausted={st['exhausted']}"]
    if st['verdict'] == 'holds':
        return result('holds', notes=notes, **info)
    if st['verdict'] == 'inconclusive':
        return result('inconclusive', notes=notes + [str(st.get('driver_error', 'path tree not exhausted within the cap'))],
                      **info)
    viols = mk_violations(st['violations']) if mk_violations else []
    return result('violated', notes=notes, violations=viols, **info)


def violation(key, what, replay_kind, replay_args, **extra):
    """key: stable identifier of *what fails* (used against known_findings.jsonl);
    replay_kind/args: entry of props.replays.REPLAYS to re-run through the public API."""
    v = {'key': key, 'what': what, 'replay': {'kind': replay_kind, 'args': replay_args}}
    v.update(extra)
    return v


# ------------------------------------------------------------------ source fingerprints
def repo_fingerprint(files):
    out = {}
    for f in files:
        p = os.path.join(REPO, f)
        try:
            out[f] = hashlib.sha256(open(p, 'rb').read()).hexdigest()[:16]
        except OSError:
            out[f] = 'missing'
    return out


# ------------------------------------------------------------------ known findings
def load_known():
    p = os.path.join(ROOT, 'known_findings.jsonl')
    known = []
    if os.path.exists(p):
        for line in open(p):
            line = line.strip()
            if line and not line.startswith('#'):
                known.append(json.loads(line))
    return known


def match_known(known, prop, key):
    for k in known:
        if k.get('property') == prop and k.get('status') == 'known' and k.get('key') == key:
            return k
    return None


# ------------------------------------------------------------------ replay
def run_replay(path, timeout=120):
    """re-run a replay file through the public API in a fresh interpreter of the repository's own environment.
    returns (reproduced: bool|None, output)."""
    env = dict(os.environ)
    env['PYTHONPATH'] = f'{ROOT}:{REPO}'
    env.pop('PYTRS_VERIF', None)
    try:
        p = subprocess.run([PY_PLAIN, '-m', 'props.replays', path], cwd=ROOT, env=env, capture_output=True,
                           text=True, timeout=timeout)
    except subprocess.TimeoutExpired:
        return None, 'replay timed out'
    out = (p.stdout + p.stderr).strip()
    if p.returncode == 1 and 'REPRODUCED' in p.stdout:
        return True, out
    if p.returncode == 0:
        return False, out
    return None, out


def write_replay(prop, v):
    d = os.path.join(ROOT, 'replays', prop)
    os.makedirs(d, exist_ok=True)
    body = {'property': prop, 'key': v['key'], 'what': v['what'], 'kind': v['replay']['kind'],
            'args': v['replay']['args']}
    h = hashlib.sha256(json.dumps(body, sort_keys=True, default=str).encode()).hexdigest()[:12]
    path = os.path.join(d, f'{h}.json')
    with open(path, 'w') as f:
        json.dump(body, f, indent=1, default=str)
    return path


# ------------------------------------------------------------------ worker side
def worker_main(argv):
    prop, name, tier = argv[0], argv[1], argv[2]
    import importlib
    mod = importlib.import_module(f'props.{prop.lower()}')
    obs = {o.name: o for o in mod.obligations(tier)}
    ob = obs[name]
    t0 = time.time()
    try:
        r = ob.fn(ob)
    except Exception as e:  # noqa
        r = result('error', notes=[f'{type(e).__name__}: {e}', traceback.format_exc()[-1500:]])
    r['name'] = name
    r['engine'] = ob.engine
    r['desc'] = ob.desc
    r['functions'] = ob.functions
    r['wall_s'] = round(time.time() - t0, 2)
    sys.stdout.write('\n@@RESULT@@' + json.dumps(r, default=str) + '\n')
    sys.stdout.flush()


# ------------------------------------------------------------------ runner side
def _spawn(prop, ob, tier, seed):
    env = dict(os.environ)
    env['PYTHONPATH'] = f'{ROOT}:{REPO}'
    env['VERIF_SEED'] = str(seed)
    env['PYTHONHASHSEED'] = '0'
    env['PYTRS_VERIF'] = '1'
    return subprocess.Popen([PY_S, '-m', 'engine.worker', prop, ob.name, tier], cwd=ROOT, env=env,
                            stdout=subprocess.PIPE, stderr=subprocess.PIPE, text=True)


def run_obligations(prop, obs, tier, seed, jobs=None, only=None):
    jobs = jobs or int(os.environ.get('VERIF_JOBS', os.cpu_count() or 4))
    import re as _re
    pending = sorted([o for o in obs if not only or _re.fullmatch(only, o.name)], key=lambda o: -o.weight)
    running = []
    results = []
    while pending or running:
        while pending and len(running) < jobs:
            ob = pending.pop(0)
            running.append((ob, _spawn(prop, ob, tier, seed), time.time()))
        time.sleep(0.05)
        still = []
        for ob, p, t0 in running:
            rc = p.poll()
            if rc is None and time.time() - t0 > ob.timeout:
                p.kill()
                p.communicate()
                results.append(dict(result('inconclusive', notes=[f'worker killed after {ob.timeout}s']),
                                    name=ob.name, engine=ob.engine, desc=ob.desc, functions=ob.functions,
                                    wall_s=round(time.time() - t0, 2)))
                continue
            if rc is None:
                still.append((ob, p, t0))
                continue
            out, err = p.communicate()
            r = None
            for line in out.splitlines():
                if line.startswith('@@RESULT@@'):
                    r = json.loads(line[len('@@RESULT@@'):])
            if r is None:
                r = dict(result('error', notes=[f'worker rc={rc}', (err or out)[-2000:]]), name=ob.name,
                         engine=ob.engine, desc=ob.desc, functions=ob.functions,
                         wall_s=round(time.time() - t0, 2))
            results.append(r)
        running = still
    order = {o.name: i for i, o in enumerate(obs)}
    results.sort(key=lambda r: order.get(r['name'], 0))
    return results


def main_check(prop, tier, seed, mod, only=None):
    t0 = time.time()
    obs = mod.obligations(tier)
    results = run_obligations(prop, obs, tier, seed, only=only)
    known = load_known()
    exit_code = 0
    lines = []
    n_viol = 0
    known_hits = []
    seen_keys = set()
    for r in results:
        if r['verdict'] == 'error':
            exit_code = max(exit_code, 3)
            lines.append(f"HARNESS-ERROR obligation={r['name']} {' | '.join(r.get('notes', []))[:600]}")
        elif r['verdict'] == 'inconclusive':
            exit_code = max(exit_code, 2) if exit_code != 3 else 3
            lines.append(f"INCONCLUSIVE obligation={r['name']} bound={r.get('bound')} {' | '.join(map(str, r.get('notes', [])))[:300]}")
        for v in r.get('violations', []):
            path = write_replay(prop, v)
            v['replay_path'] = path
            rep, out = run_replay(path)
            v['reproduced'] = rep
            v['replay_output'] = out[-600:]
            if rep is not True:
                # encoding / stub / table is wrong, or the candidate needs a state no public call reaches
                exit_code = 3
                lines.append(f"HARNESS-ERROR obligation={r['name']} candidate did not reproduce: {v['what'][:200]} "
                             f"replay={path} :: {out[-300:]}")
                continue
            k = match_known(known, prop, v['key'])
            if k is not None:
                v['known'] = True
                if v['key'] not in seen_keys:
                    lines.append(f"KNOWN-FINDING: property={prop} {k.get('what', v['what'])} [key={v['key']}]")
                    known_hits.append(v['key'])
                seen_keys.add(v['key'])
            else:
                n_viol += 1
                if ('V', v['key']) not in seen_keys:     # one line per distinct finding key; all are in evidence
                    lines.append(f"VIOLATION property={prop} replay={path}")
                    lines.append(f"  what: {v['what'][:400]} [key={v['key']}] obligation={r['name']}")
                seen_keys.add(('V', v['key']))
    if n_viol:
        # a reproduced, unlisted violation decides the outcome even if another obligation was inconclusive or another
        # candidate failed to reproduce (those are still printed above)
        exit_code = 1
    wall = time.time() - t0
    write_evidence(prop, tier, seed, mod, obs, results, n_viol, known_hits, wall)
    for ln in lines:
        print(ln)
    ok = sum(1 for r in results if r['verdict'] == 'holds')
    print(f"[{prop} {tier}] obligations={len(results)} holds={ok} violations={n_viol} known={len(known_hits)} "
          f"wall={wall:.1f}s exit={exit_code}")
    return exit_code


def write_evidence(prop, tier, seed, mod, obs, results, n_viol, known_hits, wall):
    level = getattr(mod, 'LEVEL', 'other')
    paths = sum(int(r.get('paths', 0)) for r in results)
    queries = sum(int(r.get('queries', 0)) for r in results)
    validated = sum(int(r.get('validated', 0)) for r in results)
    states = sum(int(r.get('states', 0)) for r in results)
    transitions = sum(int(r.get('transitions', 0)) for r in results)
    samples = []
    for r in results:
        for s in r.get('samples', [])[:3]:
            samples.append({'obligation': r['name'], 'case': s})
    if not samples:
        samples = [{'obligation': r['name'], 'case': r.get('desc', '')} for r in results[:3]]
    decided = [r for r in results if r['verdict'] in ('holds', 'violated')]
    files = sorted({f for f in getattr(mod, 'FILES', [])})
    functions = sorted({fn for r in results for fn in r.get('functions', [])})
    assumptions = list(getattr(mod, 'ASSUMPTIONS', []))
    for r in results:
        for a in r.get('assumptions', []):
            if a not in assumptions:
                assumptions.append(a)
    cov = {
        'evaluations': max(1, paths + queries),
        'distinct_nontrivial': max(0, sum(int(r.get('distinct', r.get('paths', 0) + r.get('queries', 0)))
                                          for r in decided)),
        'rule': getattr(mod, 'RULE', 'one evaluation = one CrossHair path explored to completion or one SMT query '
                                     'answered sat/unsat; distinct_nontrivial counts, over decided obligations, '
                                     'distinct completed non-ignored paths plus answered queries excluding vacuity twins'),
        'samples': samples[:40],
        'obligations': len(results),
        'discharged': len([r for r in results if r['verdict'] == 'holds']),
        'states': states,
        'transitions': transitions,
        'traces_validated_against_impl': validated,
        'explanation': getattr(mod, 'EXPLANATION', ''),
        'exhaustive': False,
        'checker_cmd': f'./check {prop} --tier {tier}',
        'trusted_base': ['z3 5.1.0', 'crosshair-tool 0.0.110', 'CPython re._parser as the reading of a compiled pattern',
                         'engine/matcher.py encoding (validated against re on every run)', 'spec/ tables and oracles'],
        'functions_encoded': functions,
        'source_fingerprint': repo_fingerprint(files),
        'solver_s': round(sum(float(r.get('solver_s', 0)) for r in results), 2),
        'paths': paths,
        'queries': queries,
        'known_findings_hit': known_hits,
        'per_obligation': [
            {k: r.get(k) for k in ('name', 'engine', 'verdict', 'bound', 'paths', 'queries', 'solver_s', 'wall_s',
                                   'validated', 'states', 'transitions', 'desc', 'notes')}
            for r in results],
        'violations': [{'key': v['key'], 'what': v['what'], 'reproduced': v.get('reproduced'),
                        'known': v.get('known', False), 'replay': v.get('replay_path')}
                       for r in results for v in r.get('violations', [])],
    }
    if level == 'model_checking' and not (cov['states'] >= 1 and cov['transitions'] >= 1):
        cov.pop('states')
        cov.pop('transitions')
    ev = {
        'property_id': prop, 'tier': tier, 'seed': int(seed), 'level': level, 'coverage': cov,
        'assumptions': assumptions, 'wall_s': round(wall, 2), 'violations': n_viol,
    }
    os.makedirs(os.path.join(ROOT, 'evidence'), exist_ok=True)
    p = os.path.join(ROOT, 'evidence', f'{prop}.json')
    try:
        import jsonschema
        schema = json.load(open('/root/.vp/EVIDENCE.schema.json'))
        jsonschema.validate(ev, schema)
    except ImportError:
        pass
    except FileNotFoundError:
        pass
    except Exception as e:  # schema violation: make it loud but still write
        print(f'EVIDENCE-SCHEMA-WARNING {e}'[:400])
    with open(p, 'w') as f:
        json.dump(ev, f, indent=1, default=str)
