"""xh.py -- engine S: drive CrossHair's path exploration over the real pyTRS functions.

`explore(fn)` runs `fn` (annotated symbolic arguments; `raise IgnoreAttempt` = assume) under
crosshair.core.explore_paths with a fresh RootNode until the path tree is exhausted, a time cap is hit, or
`max_viol` violating paths were collected.  A path *holds* iff fn returns True.  Arguments are realised only on
violating paths (realising on every path adds forks and the tree never exhausts).

Verdicts: 'holds' (tree exhausted, every path True), 'violated' (>=1 path returned non-True or raised),
'inconclusive' (cap hit before exhaustion, no violation).
"""
import inspect
import re
import sys
import time
import traceback

from crosshair.core import explore_paths, deep_realize
import crosshair.core_and_libs  # noqa: F401  (registers library implementations)
from crosshair.options import DEFAULT_OPTIONS, AnalysisOptionSet
from crosshair.statespace import RootNode
from crosshair.tracers import NoTracing, ResumedTracing  # noqa: F401
from crosshair.util import IgnoreAttempt  # noqa: F401
import crosshair.libimpl.relib as relib

# --- work-around for a CrossHair 0.0.110 defect: its replacement for re.Pattern.sub/subn recurses forever on
# patterns that can match the empty string (Config._text_to_attributes uses re.sub(r'\s*', '', txt)).  Fully concrete
# (pattern, repl, string) calls are sent to the native `re` (exact semantics); symbolic ones are left to CrossHair.
if not hasattr(relib, '_subn_orig_verif'):
    relib._subn_orig_verif = relib._subn

    def _subn_fixed(self, repl, string, count=0):
        with NoTracing():
            conc = type(string) is str and (type(repl) is str or callable(repl))
        if conc:
            with NoTracing():
                return re.Pattern.subn(self, repl, string, count)
        return relib._subn_orig_verif(self, repl, string, count)

    relib._subn = _subn_fixed

_IGN = object()


def explore(fn, timeout=120.0, max_viol=3, max_paths=10 ** 9):
    sig = inspect.signature(fn)
    opts = DEFAULT_OPTIONS.overlay(AnalysisOptionSet(
        per_condition_timeout=timeout, per_path_timeout=timeout,
        max_iterations=max_paths, max_uninteresting_iterations=sys.maxsize))
    root = RootNode()
    st = {'paths': 0, 'ignored': 0, 'violations': [], 't0': time.time()}

    def wrapped(ba):
        try:
            return fn(*ba.args, **ba.kwargs)
        except IgnoreAttempt:
            return _IGN

    def cb(space, pre_args, args, ret, exc, stack):
        with NoTracing():
            if ret is _IGN:
                st['ignored'] += 1
                return False
            st['paths'] += 1
            r = None
            if exc is None:
                try:
                    r = deep_realize(ret)
                except Exception as e:  # noqa
                    r = f'<unrealizable {e!r}>'
            bad = (exc is not None) or (r is not True)
            if bad:
                try:
                    a = deep_realize(dict(args.arguments))
                except Exception as e:  # noqa
                    a = {'<unrealizable>': repr(e)}
                tb = ''
                if exc is not None:
                    tb = f'{type(exc).__name__}: {exc}'[:400]
                    try:
                        fs = list(stack)[-1]
                        tb += f' @ {fs.filename}:{fs.lineno} in {fs.name}'
                    except Exception:  # noqa
                        pass
                st['violations'].append({'args': a, 'ret': None if exc is not None else r, 'exc': tb or None})
                return len(st['violations']) >= max_viol
            return False

    try:
        explore_paths(wrapped, sig, opts, root, cb)
    except Exception as e:  # CrossHair-internal failure: inconclusive, never a pass
        st['driver_error'] = repr(e)
    st['wall'] = time.time() - st.pop('t0')
    exhausted = False
    try:
        exhausted = bool(root.child.is_exhausted())
    except Exception:
        exhausted = False
    st['exhausted'] = exhausted
    if st['violations']:
        st['verdict'] = 'violated'
    elif exhausted and 'driver_error' not in st and st['paths'] > 0:
        st['verdict'] = 'holds'
    else:
        st['verdict'] = 'inconclusive'
    return st


def choose(idx, seq):
    """pick seq[idx] by forking on a symbolic index; every out-of-range value is clamped to the last element, so no
    attempt is wasted on an IgnoreAttempt"""
    seq = list(seq)
    for i, v in enumerate(seq[:-1]):
        if idx == i:
            return v
    return seq[-1]
