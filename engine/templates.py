"""templates.py -- text templates with symbolic boundaries for engines M (and replay).

A template is a list of segments laid out left to right over a matcher.Text; each named segment gets symbolic
boundaries (lo, hi).  Segment kinds:
  Alt(name, [spellings])         one of several fixed strings (optionally in any of: as written / lower / upper case)
  Digits(name, lo, hi)           lo..hi decimal digits (optionally excluding one literal value, or a leading zero)
  Fill(name, chars, lo, hi)      lo..hi characters from a class (optional constraints on first / last character)
  Opt(name, [segments])          all-or-nothing optional group
The template yields z3 constraints; `describe(model)` gives the concrete spans, `Text.value(model)` the string."""
import z3

from .matcher import Text, inset, UCHARS  # noqa: F401

DIGITS = '0123456789'


class Seg:
    def __init__(self, name):
        self.name = name


class Alt(Seg):
    def __init__(self, name, alts, cases=False):
        super().__init__(name)
        alts = list(alts)
        if cases:
            seen = []
            for a in alts:
                for v in (a, a.lower(), a.upper()):
                    if v not in seen:
                        seen.append(v)
            alts = seen
        self.alts = alts


class Digits(Seg):
    def __init__(self, name, lo=1, hi=3, not_value=None, no_leading_zero=False):
        super().__init__(name)
        self.lo, self.hi, self.not_value, self.no_leading_zero = lo, hi, not_value, no_leading_zero


class Fill(Seg):
    def __init__(self, name, chars, lo=0, hi=6, first_not=None, last_not=None):
        super().__init__(name)
        self.chars, self.lo, self.hi, self.first_not, self.last_not = chars, lo, hi, first_not, last_not


class Opt(Seg):
    def __init__(self, name, segs):
        super().__init__(name)
        self.segs = segs


class Template:
    def __init__(self, segs, text: Text, prefix='t', exact_length=True):
        self.text = text
        self.cons = []
        self.present = {}
        self.b = {}      # name -> (lo, hi) z3 Ints
        self.alt_choice = {}
        self._n = 0
        self.prefix = prefix
        cur = self._lay(segs, z3.IntVal(0), z3.BoolVal(True))
        self.end = cur
        if exact_length:
            self.cons.append(cur == text.L)
        else:
            self.cons.append(cur <= text.L)

    def _new(self):
        self._n += 1
        return z3.Int(f'{self.prefix}_b{self._n}')

    def _lit_at(self, lo, w):
        t = self.text
        return z3.And(*[t.at(lo + k) == ord(ch) for k, ch in enumerate(w)]) if w else z3.BoolVal(True)

    def _lay(self, segs, cur, present):
        t = self.text
        N = t.N
        for s in segs:
            if isinstance(s, Opt):
                p = z3.Bool(f'{self.prefix}_opt_{s.name}')
                self.present[s.name] = p
                start = cur
                end = self._lay(s.segs, cur, z3.And(present, p))
                nxt = self._new()
                self.cons.append(nxt == z3.If(p, end, start))
                self.b[s.name] = (start, nxt)
                cur = nxt
                continue
            hi = self._new()
            lo = cur
            self.b[s.name] = (lo, hi)
            self.cons += [hi >= lo, hi <= N]
            if isinstance(s, Alt):
                ch = z3.Int(f'{self.prefix}_alt_{s.name}')
                self.alt_choice[s.name] = (ch, s.alts)
                self.cons.append(z3.Implies(present, z3.Or(*[
                    z3.And(ch == i, hi == lo + len(w), self._lit_at(lo, w)) for i, w in enumerate(s.alts)])))
            elif isinstance(s, Digits):
                self.cons.append(z3.Implies(present, z3.And(hi - lo >= s.lo, hi - lo <= s.hi)))
                for i in range(N):
                    self.cons.append(z3.Implies(z3.And(present, lo <= i, i < hi), inset(t.c[i], DIGITS)))
                if s.not_value is not None:
                    w = s.not_value
                    self.cons.append(z3.Implies(present, z3.Not(z3.And(hi == lo + len(w), self._lit_at(lo, w)))))
                if s.no_leading_zero:
                    self.cons.append(z3.Implies(z3.And(present, hi - lo >= 2), t.at(lo) != ord('0')))
            elif isinstance(s, Fill):
                self.cons.append(z3.Implies(present, z3.And(hi - lo >= s.lo, hi - lo <= s.hi)))
                for i in range(N):
                    self.cons.append(z3.Implies(z3.And(present, lo <= i, i < hi), inset(t.c[i], s.chars)))
                if s.first_not:
                    self.cons.append(z3.Implies(z3.And(present, hi > lo), z3.Not(inset(t.at(lo), s.first_not))))
                if s.last_not:
                    self.cons.append(z3.Implies(z3.And(present, hi > lo), z3.Not(inset(t.at(hi - 1), s.last_not))))
            self.cons.append(z3.Implies(z3.Not(present), hi == lo))
            cur = hi
        return cur

    def lo(self, name):
        return self.b[name][0]

    def hi(self, name):
        return self.b[name][1]

    def chosen(self, name, model):
        ch, alts = self.alt_choice[name]
        i = model.eval(ch, model_completion=True).as_long()
        return alts[i] if 0 <= i < len(alts) else None

    def describe(self, model):
        return {k: (model.eval(a, model_completion=True).as_long(), model.eval(b, model_completion=True).as_long())
                for k, (a, b) in self.b.items()}

    def number(self, name):
        """z3 Int: numeric value of a Digits segment (up to 3 digits)"""
        lo, hi = self.b[name]
        t = self.text
        d = lambda k: t.at(lo + k) - 48
        return z3.If(hi - lo == 1, d(0), z3.If(hi - lo == 2, 10 * d(0) + d(1), 100 * d(0) + 10 * d(1) + d(2)))
