"""contracts.py -- documents with provenance and contract patterns for the S harnesses of the PLSS pipeline.

A `Doc` is a *concrete* canonical description assembled from labelled segments (Twp/Rge, section group) and fillers
(description blocks, connectors).  Its text is handed to the real `plss_parse` glue as a `DStr`: a `str` subclass that
remembers where in the document it came from, so that slices / strips made by the glue keep their provenance and an
oracle can ask which document indexes ended up where.

The four finder patterns the glue consults (twprge_regex, multisec_regex, no_num_sec_regex, sec_twprge_in_between) are
replaced, in the namespace of `plss_parse` and for the duration of one path, by `ContractPattern`s that answer from the
document's segment table.  *Their behaviour is the statement of the L-EXACT obligations* discharged by engine M on the
real pattern objects for the same template family (props/c01.py): on canonical text the finders return exactly the
labelled segments, in order, with these groups."""


class DStr(str):
    """a str that knows its offset in a Doc (None once provenance is lost, e.g. after formatting)"""
    def __new__(cls, value, off=None, doc=None):
        o = super().__new__(cls, value)
        o.off = off
        o.doc = doc
        return o

    def _mk(self, value, off):
        return DStr(value, off if self.off is not None else None, self.doc)

    def __getitem__(self, key):
        r = str.__getitem__(self, key)
        if isinstance(key, slice) and (key.step in (None, 1)) and self.off is not None:
            start, _, _ = key.indices(len(self))
            return DStr(r, self.off + start, self.doc)
        return r

    def lstrip(self, chars=None):
        r = str.lstrip(self, chars)
        return self._mk(r, (self.off or 0) + (len(self) - len(r)))

    def rstrip(self, chars=None):
        return self._mk(str.rstrip(self, chars), self.off)

    def strip(self, chars=None):
        left = str.lstrip(self, chars)
        return self._mk(str.rstrip(left, chars), (self.off or 0) + (len(self) - len(left)))

    def lower(self):
        r = str.lower(self)
        return self._mk(r, self.off) if len(r) == len(self) else r

    def span(self):
        return None if self.off is None else (self.off, self.off + len(self))


class Seg:
    """a labelled segment of a Doc"""

    def __init__(self, kind, text, groups, data=None):
        self.kind = kind          # 'TR' | 'SEC'
        self.text = text
        self.groups = groups      # name -> (value, rel_start, rel_end) | None
        self.data = data or {}
        self.start = self.end = None


def tr_seg(twp, ns, rge, ew):
    text = f'T{twp}{ns}-R{rge}{ew}'
    g = {'twpnum': (str(twp), 1, 1 + len(str(twp))), 'ns': (ns, 1 + len(str(twp)), 2 + len(str(twp))),
         'rgenum': (str(rge), 4 + len(str(twp)), 4 + len(str(twp)) + len(str(rge))), 'rgenum_edgecase_rge2': None,
         'ew': (ew, len(text) - 1, len(text))}
    return Seg('TR', text, g, {'twprge': f'{twp}{ns.lower()}{rge}{ew.lower()}'})


def sec_seg(nums, colon, thru=False):
    """'Sec 14', 'Sec 14:', 'Secs 14 - 15:', 'Secs 14, 16:' ..."""
    word = 'Sec ' if len(nums) == 1 else 'Secs '
    text = word + str(nums[0])
    g = {'secnum': (str(nums[0]), len(word), len(text)), 'secnum_rightmost': None, 'intervener': None, 'colon': None,
         'plural': None if len(nums) == 1 else ('s', 3, 4)}
    secs = [nums[0]]
    for k in nums[1:]:
        sep = ' - ' if thru else ', '
        istart = len(text)
        text += sep
        g['intervener'] = (sep, istart, len(text))
        g['secnum_rightmost'] = (str(k), len(text), len(text) + len(str(k)))
        text += str(k)
        if thru:
            step = 1 if k >= secs[-1] else -1
            secs += list(range(secs[-1] + step, k + step, step))
        else:
            secs.append(k)
    if colon:
        g['colon'] = (':', len(text), len(text) + 1)
        text += ':'
    return Seg('SEC', text, g, {'secs': [str(s).rjust(2, '0') for s in secs], 'multi': len(nums) > 1, 'colon': bool(colon)})


BETWEEN = (' of ', ' in ', ', ', ',', ' all of ', ' lying within ')


class Doc:
    def __init__(self, fillers, segs):
        assert len(fillers) == len(segs) + 1
        self.fillers = list(fillers)
        self.segs = list(segs)
        parts = []
        pos = 0
        self.filler_spans = []
        for i, f in enumerate(fillers):
            self.filler_spans.append((pos, pos + len(f)))
            parts.append(f)
            pos += len(f)
            if i < len(segs):
                segs[i].start = pos
                parts.append(segs[i].text)
                pos += len(segs[i].text)
                segs[i].end = pos
        self.string = ''.join(parts)
        self.n = len(self.string)

    def text(self):
        return DStr(self.string, 0, self)

    def segs_in(self, kind, lo, hi):
        return [s for s in self.segs if s.kind == kind and s.start >= lo and s.end <= hi]


class CMatch:
    """match object handed out by a ContractPattern"""

    def __init__(self, seg, string, base, span=None, groups=None):
        self.seg = seg
        self.string = string
        self._base = base            # document index of string[0]
        self._span = span or (seg.start, seg.end)
        self._groups = groups if groups is not None else seg.groups

    def _g(self, g):
        if g == 0:
            return (None, self._span[0] - self.seg.start, self._span[1] - self.seg.start)
        return self._groups[g]

    def start(self, g=0):
        v = self._g(g)
        return -1 if v is None else self.seg.start + v[1] - self._base

    def end(self, g=0):
        v = self._g(g)
        return -1 if v is None else self.seg.start + v[2] - self._base

    def span(self, g=0):
        return (self.start(g), self.end(g))

    def group(self, g=0):
        if g == 0:
            return self.string[self.start(0):self.end(0)]
        v = self._groups[g]
        return None if v is None else v[0]

    def __getitem__(self, g):
        return self.group(g)

    def groupdict(self):
        return {k: (None if v is None else v[0]) for k, v in self._groups.items()}


class ContractPattern:
    """answers search / finditer (with pos, endpos) over DStr pieces of a Doc from the segment table"""

    def __init__(self, kind, log=None):
        self.kind = kind
        self.log = log

    def _window(self, text, pos, endpos):
        if not isinstance(text, DStr) or text.off is None:
            raise AssertionError(f'contract pattern {self.kind} consulted on text without provenance: {text!r}')
        lo = text.off + (pos or 0)
        hi = text.off + (len(text) if endpos is None else min(endpos, len(text)))
        return text.doc, text.off, lo, hi

    def finditer(self, text, pos=0, endpos=None):
        doc, base, lo, hi = self._window(text, pos, endpos)
        return iter([CMatch(s, text, base) for s in doc.segs_in(self.kind, lo, hi)])

    def search(self, text, pos=0, endpos=None):
        doc, base, lo, hi = self._window(text, pos, endpos)
        segs = doc.segs_in(self.kind, lo, hi)
        return CMatch(segs[0], text, base) if segs else None


class NoNumSecPattern(ContractPattern):
    """no_num_sec_regex: the section *word* at the start of the first section segment"""

    def search(self, text, pos=0, endpos=None):
        doc, base, lo, hi = self._window(text, pos, endpos)
        segs = [s for s in doc.segs if s.kind == 'SEC' and s.start >= lo and s.start + 3 <= hi]
        if not segs:
            return None
        s = segs[0]
        return CMatch(s, text, base, span=(s.start, s.start + 3), groups={})


class BetweenPattern(ContractPattern):
    """sec_twprge_in_between: a section segment, one of the 'between' connectors, a Twp/Rge segment"""

    def search(self, text, pos=0, endpos=None):
        doc, base, lo, hi = self._window(text, pos, endpos)
        for i, s in enumerate(doc.segs[:-1]):
            t = doc.segs[i + 1]
            if s.kind == 'SEC' and t.kind == 'TR' and s.start >= lo and t.end <= hi:
                between = doc.string[s.end:t.start]
                if between.strip() in [b.strip() for b in BETWEEN]:
                    return CMatch(s, text, base, span=(s.start, t.end), groups={'between_found': (between.strip(), 0, 0)})
        return None


STUB_NAMES = ('twprge_regex', 'multisec_regex', 'no_num_sec_regex', 'sec_twprge_in_between')


def install(module, fake_pre=True):
    """rebind the finder patterns (and the preprocessor) in `module` (pytrs.parser.plssdesc.plss_parse); returns what
    is needed to restore.  Raises KeyError if a name is gone (structure changed -> obligation skipped, not failed)."""
    saved = {}
    repl = {'twprge_regex': ContractPattern('TR'), 'multisec_regex': ContractPattern('SEC'),
            'no_num_sec_regex': NoNumSecPattern('SEC'), 'sec_twprge_in_between': BetweenPattern('SEC')}
    if fake_pre:
        repl['PLSSPreprocessor'] = FakePre
    for name, val in repl.items():
        if not hasattr(module, name):
            raise KeyError(name)
        saved[name] = getattr(module, name)
        setattr(module, name, val)
    return saved


def restore(module, saved):
    for k, v in saved.items():
        setattr(module, k, v)


class FakePre:
    """contract: canonical text is a fixed point of plss_preprocess (discharged for the template family by C08)"""

    def __init__(self, text, *a, **k):
        self.text = text
        self.orig_text = text
        self.fixed_twprges = []
