"""rx.py -- read a *live* compiled `re` pattern object (imported from /repo on this run) and produce
(a) a z3 regular expression (engine Z) and (b) a prioritised Thompson NFA (engines M and A).

The alphabet is bounded (see UCHARS); everything outside it is outside every claim.
Nodes not used by the repository raise Unsupported -> the obligation is inconclusive, never passed."""
import re
import warnings

warnings.simplefilter('ignore', DeprecationWarning)
try:  # Python 3.11+: re._parser
    import re._parser as sre_parse
    import re._constants as sre_constants
except ImportError:  # pragma: no cover
    import sre_parse
    import sre_constants
from re._constants import (  # noqa
    LITERAL, NOT_LITERAL, ANY, IN, NEGATE, RANGE, CATEGORY, BRANCH, SUBPATTERN, MAX_REPEAT, MIN_REPEAT,
    AT, ASSERT, ASSERT_NOT, MAXREPEAT, CATEGORY_DIGIT, CATEGORY_SPACE, CATEGORY_WORD, CATEGORY_NOT_DIGIT,
    CATEGORY_NOT_SPACE, CATEGORY_NOT_WORD, AT_BOUNDARY, AT_NON_BOUNDARY, AT_END, AT_END_STRING, AT_BEGINNING,
    AT_BEGINNING_STRING)
import z3

ALPHA_EXTRA = '½¼§–—'
UCHARS = [chr(c) for c in range(32, 127)] + ['\t', '\n', '\r'] + list(ALPHA_EXTRA)
UCODES = frozenset(ord(c) for c in UCHARS)
WORD = frozenset(c for c in UCHARS if c.isalnum() or c == '_')


class Unsupported(Exception):
    pass


def cat_chars(cat):
    t = {CATEGORY_DIGIT: str.isdigit, CATEGORY_SPACE: str.isspace,
         CATEGORY_WORD: lambda c: c.isalnum() or c == '_'}
    n = {CATEGORY_NOT_DIGIT: CATEGORY_DIGIT, CATEGORY_NOT_SPACE: CATEGORY_SPACE, CATEGORY_NOT_WORD: CATEGORY_WORD}
    if cat in t:
        return [c for c in UCHARS if t[cat](c)]
    if cat in n:
        return [c for c in UCHARS if not t[n[cat]](c)]
    raise Unsupported(cat)


def ic(ch, flags):
    if flags & re.I:
        return [c for c in {ch, ch.lower(), ch.upper()} if len(c) == 1 and c in UCODES_CH]
    return [ch] if ch in UCODES_CH else []


UCODES_CH = frozenset(UCHARS)


def in_chars(items, flags):
    neg = False
    cs = []
    for op, a in items:
        if op is NEGATE:
            neg = True
        elif op is LITERAL:
            cs += ic(chr(a), flags)
        elif op is RANGE:
            for c in range(a[0], a[1] + 1):
                cs += ic(chr(c), flags)
        elif op is CATEGORY:
            cs += cat_chars(a)
        else:
            raise Unsupported(op)
    if neg:
        s = set(cs)
        cs = [c for c in UCHARS if c not in s]
    return cs


def node_chars(op, arg, flags):
    """char set of a single-character node, else None"""
    if op is LITERAL:
        return ic(chr(arg), flags)
    if op is NOT_LITERAL:
        s = set(ic(chr(arg), flags))
        return [c for c in UCHARS if c not in s]
    if op is ANY:
        return [c for c in UCHARS if c != '\n' or flags & re.S]
    if op is IN:
        return in_chars(arg, flags)
    return None


def parse(pattern):
    """sre parse tree of a compiled pattern object (flags included)."""
    return sre_parse.parse(pattern.pattern, pattern.flags)


# ---------------------------------------------------------------- Z
def z3_charset(chars):
    codes = sorted(set(ord(c) for c in chars))
    if not codes:
        return z3.Empty(z3.ReSort(z3.StringSort()))
    rs = []
    i = 0
    while i < len(codes):
        j = i
        while j + 1 < len(codes) and codes[j + 1] == codes[j] + 1:
            j += 1
        rs.append(z3.Range(chr(codes[i]), chr(codes[j])) if j > i else z3.Re(chr(codes[i])))
        i = j + 1
    return z3.Union(*rs) if len(rs) > 1 else rs[0]


def sigma():
    return z3_charset(UCHARS)


def eps():
    return z3.Re('')


def to_re(nodes, flags, skipped=None):
    """language of the node list with zero-width assertions dropped (recorded in `skipped`)"""
    out = []
    for op, arg in nodes:
        cs = node_chars(op, arg, flags)
        if cs is not None:
            out.append(z3_charset(cs))
        elif op is BRANCH:
            alts = [to_re(b, flags, skipped) for b in arg[1]]
            out.append(z3.Union(*alts) if len(alts) > 1 else alts[0])
        elif op is SUBPATTERN:
            out.append(to_re(arg[3], flags, skipped))
        elif op in (MAX_REPEAT, MIN_REPEAT):
            lo, hi, sub = arg
            r = to_re(sub, flags, skipped)
            if hi == MAXREPEAT:
                out.append(z3.Star(r) if lo == 0 else z3.Plus(r) if lo == 1
                           else z3.Concat(z3.Loop(r, lo, lo), z3.Star(r)))
            else:
                out.append(z3.Loop(r, lo, hi))
        elif op in (AT, ASSERT, ASSERT_NOT):
            if skipped is not None:
                skipped.append((op, arg))
        else:
            raise Unsupported(op)
    if not out:
        return eps()
    return z3.Concat(*out) if len(out) > 1 else out[0]


def pattern_re(pattern, skipped=None):
    return to_re(parse(pattern), pattern.flags, skipped)


# ---------------------------------------------------------------- NFA
class NFA:
    def __init__(self):
        self.n = 0
        self.eps = {}
        self.ch = {}
        self.chgrp = {}      # char-consuming state -> tuple of enclosing capture-group numbers (outermost first)
        self.gstack = []

    def new(self):
        self.n += 1
        self.eps[self.n - 1] = []
        return self.n - 1

    def n_edges(self):
        return sum(len(v) for v in self.eps.values()) + len(self.ch)


def build(nfa, nodes, flags, cur):
    for op, arg in nodes:
        cs = node_chars(op, arg, flags)
        if cs is not None:
            t = nfa.new()
            nfa.ch[cur] = (frozenset(cs), t)
            nfa.chgrp[cur] = tuple(nfa.gstack)
            cur = t
        elif op is SUBPATTERN:
            g = arg[0]
            if (arg[1], arg[2]) != (0, 0):
                raise Unsupported('inline flags')
            if g is not None:
                a = nfa.new()
                nfa.eps[cur].append(('tag', ('open', g), a))
                cur = a
            if g is not None:
                nfa.gstack.append(g)
            cur = build(nfa, arg[3], flags, cur)
            if g is not None:
                nfa.gstack.pop()
            if g is not None:
                b = nfa.new()
                nfa.eps[cur].append(('tag', ('close', g), b))
                cur = b
        elif op is BRANCH:
            out = nfa.new()
            for b in arg[1]:
                s = nfa.new()
                nfa.eps[cur].append(('e', None, s))
                e = build(nfa, b, flags, s)
                nfa.eps[e].append(('e', None, out))
            cur = out
        elif op in (MAX_REPEAT, MIN_REPEAT):
            lo, hi, sub = arg
            greedy = op is MAX_REPEAT
            for _ in range(lo):
                cur = build(nfa, sub, flags, cur)
            if hi == MAXREPEAT:
                L = nfa.new()
                nfa.eps[cur].append(('e', None, L))
                out = nfa.new()
                bs = nfa.new()
                nfa.eps[L] += [('e', None, bs), ('e', None, out)] if greedy else [('e', None, out), ('e', None, bs)]
                be = build(nfa, sub, flags, bs)
                nfa.eps[be].append(('e', None, L))
                cur = out
            else:
                out = nfa.new()
                for _ in range(hi - lo):
                    bs = nfa.new()
                    nfa.eps[cur] += [('e', None, bs), ('e', None, out)] if greedy \
                        else [('e', None, out), ('e', None, bs)]
                    cur = build(nfa, sub, flags, bs)
                nfa.eps[cur].append(('e', None, out))
                cur = out
        elif op is AT:
            t = nfa.new()
            nfa.eps[cur].append(('assert', ('at', arg), t))
            cur = t
        elif op in (ASSERT, ASSERT_NOT):
            t = nfa.new()
            nfa.eps[cur].append(('assert', ('look', op is ASSERT, arg[0], arg[1]), t))
            cur = t
        else:
            raise Unsupported(op)
    return cur


def compile_nfa(pattern):
    nfa = NFA()
    s = nfa.new()
    acc = build(nfa, parse(pattern), pattern.flags, s)
    return nfa, s, acc
