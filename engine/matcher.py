"""matcher.py -- engine M: exact bounded model of CPython `re` matching.

For a symbolic character array c[0..N) (z3 Ints) with symbolic length L <= N, `Matcher` encodes *which* span and
group spans `pattern.search / match / fullmatch (pos, endpos)` return: leftmost start, then the first accepting
path in sre's backtracking priority order (greedy: body before exit; lazy: exit first; alternation: left to right).
The repo's patterns use no back-references, atomic groups, possessive quantifiers or conditionals; a backtracking
matcher without those returns exactly the lexicographically-first accepting path, which is what On[][] selects.
"""
import re
import sys
import time

import z3

from .rx import (UCHARS, WORD, Unsupported, compile_nfa, node_chars, BRANCH, SUBPATTERN, AT, AT_BOUNDARY,
                 AT_NON_BOUNDARY, AT_END, AT_END_STRING, AT_BEGINNING, AT_BEGINNING_STRING)


def inset(cv, chars):
    codes = sorted(set(ord(c) for c in chars))
    if not codes:
        return z3.BoolVal(False)
    rs = []
    i = 0
    while i < len(codes):
        j = i
        while j + 1 < len(codes) and codes[j + 1] == codes[j] + 1:
            j += 1
        rs.append(cv == codes[i] if i == j else z3.And(cv >= codes[i], cv <= codes[j]))
        i = j + 1
    return z3.Or(*rs) if len(rs) > 1 else rs[0]


class Text:
    """symbolic text: N z3 Int char codes + length L"""

    def __init__(self, N, name='c'):
        self.N = N
        self.c = [z3.Int(f'{name}{i}') for i in range(N)]
        self.L = z3.Int(f'{name}_len')

    def wf(self, alphabet=None):
        alphabet = UCHARS if alphabet is None else alphabet
        return [self.L >= 0, self.L <= self.N] + [inset(ci, alphabet) for ci in self.c]

    def at(self, idx):
        e = z3.IntVal(-1)
        for i in range(self.N - 1, -1, -1):
            e = z3.If(idx == i, self.c[i], e)
        return e

    def pin(self, s):
        return [self.L == len(s)] + [self.c[i] == ord(ch) for i, ch in enumerate(s)]

    def value(self, model):
        n = model.eval(self.L, model_completion=True).as_long()
        return ''.join(chr(model.eval(self.c[i], model_completion=True).as_long()) for i in range(n))


class Matcher:
    def __init__(self, pattern, text, prefix='m', mode='search', pos=0, endpos=None):
        """mode: search|match|fullmatch. pos: int or z3 Int. endpos: None (=L) or z3 Int/int
        (the string is truncated there, as CPython does)."""
        self.p = pattern
        self.t = text
        self.P = prefix
        self.flags = pattern.flags
        self.nfa, self.start, self.acc = compile_nfa(pattern)
        self.mode = mode
        self.pos = pos
        self.L = text.L if endpos is None else endpos
        self.cons = []
        if endpos is not None:
            self.cons += [self.L >= 0, self.L <= text.L]
        self._encode()

    # --- assertions
    def _at(self, a, i):
        c, L, N = self.t.c, self.L, self.t.N
        left = z3.BoolVal(False) if i == 0 else inset(c[i - 1], WORD)
        right = z3.And(L > i, inset(c[i], WORD)) if i < N else z3.BoolVal(False)
        if a is AT_BOUNDARY:
            return z3.Xor(left, right)
        if a is AT_NON_BOUNDARY:
            return z3.Not(z3.Xor(left, right))
        if a is AT_END_STRING:
            return L == i
        if a is AT_END:
            if self.flags & re.M:
                raise Unsupported('multiline $')
            last_nl = z3.And(L == i + 1, c[i] == 10) if i < N else z3.BoolVal(False)
            return z3.Or(L == i, last_nl)
        if a in (AT_BEGINNING, AT_BEGINNING_STRING):
            if self.flags & re.M and a is AT_BEGINNING:
                raise Unsupported('multiline ^')
            return z3.BoolVal(i == 0)
        raise Unsupported(a)

    def _look(self, positive, direction, sub, i):
        c, L, N = self.t.c, self.L, self.t.N

        def alt(nodes, i):
            nodes = list(nodes)
            if len(nodes) == 1 and nodes[0][0] is BRANCH:
                return z3.Or(*[alt(b, i) for b in nodes[0][1][1]])
            if len(nodes) == 1 and nodes[0][0] is SUBPATTERN:
                return alt(nodes[0][1][3], i)
            if len(nodes) == 1 and nodes[0][0] is AT:
                return self._at(nodes[0][1], i)
            sets = []
            for op, arg in nodes:
                cs = node_chars(op, arg, self.flags)
                if cs is None:
                    raise Unsupported(('lookaround', op))
                sets.append(cs)
            if direction == -1:
                j = i - len(sets)
                if j < 0:
                    return z3.BoolVal(False)
                return z3.And(*[inset(c[j + k], cs) for k, cs in enumerate(sets)])
            conds = []
            for k, cs in enumerate(sets):
                if i + k >= N:
                    return z3.BoolVal(False)
                conds.append(z3.And(L > i + k, inset(c[i + k], cs)))
            return z3.And(*conds) if conds else z3.BoolVal(True)

        r = alt(sub, i)
        return r if positive else z3.Not(r)

    def _cond(self, d, i):
        return self._at(d[1], i) if d[0] == 'at' else self._look(d[1], d[2], d[3], i)

    def _topo(self):
        nfa = self.nfa
        seen = {}
        order = []
        sys.setrecursionlimit(max(10000, 10 * nfa.n))

        def visit(q):
            if seen.get(q) == 1:
                raise Unsupported('nullable loop body (eps cycle)')
            if seen.get(q) == 2:
                return
            seen[q] = 1
            for k, d, t in nfa.eps[q]:
                visit(t)
            seen[q] = 2
            order.append(q)

        for q in range(nfa.n):
            visit(q)
        return order

    def _encode(self):
        nfa, N, c, L, P = self.nfa, self.t.N, self.t.c, self.L, self.P
        cons = self.cons
        order = self._topo()
        R = [[None] * (N + 1) for _ in range(nfa.n)]
        ok = {}
        for i in range(N, -1, -1):
            for q in order:
                terms = []
                if q == self.acc:
                    terms.append(L == i if self.mode == 'fullmatch' else z3.BoolVal(True))
                for idx, (k, d, t) in enumerate(nfa.eps[q]):
                    ok[(q, idx, i)] = z3.And(self._cond(d, i), R[t][i]) if k == 'assert' else R[t][i]
                    terms.append(ok[(q, idx, i)])
                if q in nfa.ch and i < N:
                    cs, t = nfa.ch[q]
                    terms.append(z3.And(L > i, inset(c[i], cs), R[t][i + 1]))
                v = z3.Bool(f'{P}_R_{q}_{i}')
                cons.append(v == (z3.Or(*terms) if terms else z3.BoolVal(False)))
                R[q][i] = v
        self.R = R
        pos = self.pos
        if self.mode == 'search':
            can = [z3.And(L >= i, pos <= i, R[self.start][i]) for i in range(N + 1)]
        else:
            can = [z3.And(L >= i, pos == i, R[self.start][i]) for i in range(N + 1)]
        self.can_start = can
        self.matched = z3.Or(*can)
        st = z3.Int(f'{P}_start')
        self.startv = st
        for i in range(N + 1):
            cons.append(z3.Implies(z3.And(can[i], *[z3.Not(can[j]) for j in range(i)]), st == i))
        cons.append(z3.Implies(z3.Not(self.matched), st == -1))
        On = [[z3.Bool(f'{P}_On_{q}_{i}') for i in range(N + 1)] for q in range(nfa.n)]
        inc = {(q, i): [] for q in range(nfa.n) for i in range(N + 1)}
        tags = {}
        for i in range(N + 1):
            inc[(self.start, i)].append(st == i)
        for i in range(N + 1):
            for q in range(nfa.n):
                prior = []
                if q == self.acc:
                    # accept is terminal (for fullmatch only when L == i)
                    if self.mode != 'fullmatch':
                        continue
                    prior.append(L == i)
                for idx, (k, d, t) in enumerate(nfa.eps[q]):
                    take = z3.And(On[q][i], ok[(q, idx, i)], *[z3.Not(p) for p in prior])
                    prior.append(ok[(q, idx, i)])
                    inc[(t, i)].append(take)
                    if k == 'tag':
                        tags.setdefault(d, []).append((i, take))
                if q in nfa.ch and i < N:
                    cs, t = nfa.ch[q]
                    inc[(t, i + 1)].append(
                        z3.And(On[q][i], L > i, inset(c[i], cs), R[t][i + 1], *[z3.Not(p) for p in prior]))
        for (q, i), lst in inc.items():
            cons.append(On[q][i] == (z3.Or(*lst) if lst else z3.BoolVal(False)))
        self.On = On
        end = z3.Int(f'{P}_end')
        self.endv = end
        for i in range(N + 1):
            cons.append(z3.Implies(z3.And(On[self.acc][i], (L == i) if self.mode == 'fullmatch' else True), end == i))
        cons.append(z3.Implies(z3.Not(self.matched), end == -1))
        self.g = {}
        for (kind, g), lst in tags.items():
            v = z3.Int(f'{P}_{kind}_{g}')
            for i, t in lst:
                cons.append(z3.Implies(z3.And(t, *[z3.Not(t2) for i2, t2 in lst if i2 > i]), v == i))
            cons.append(z3.Implies(z3.Not(z3.Or(*[t for _, t in lst])), v == -1))
            self.g[(kind, g)] = v
        self.n_states = nfa.n * (N + 1)
        self.n_transitions = nfa.n_edges() * (N + 1)

    def span(self, name):
        gi = self.p.groupindex[name] if isinstance(name, str) else name
        return self.g[('open', gi)], self.g[('close', gi)]

    def reach_start_at(self, idx):
        """z3 Bool: a match can start exactly at (symbolic) index idx"""
        return z3.Or(*[z3.And(idx == k, self.L >= k, self.R[self.start][k]) for k in range(self.t.N + 1)])

    def reach_start_in(self, lo, hi):
        """z3 Bool: some match can start at an index i with lo <= i < hi"""
        return z3.Or(*[z3.And(lo <= k, k < hi, self.L >= k, self.R[self.start][k]) for k in range(self.t.N + 1)])


def model_match(pattern, M, T, model):
    """read (span, named group spans) out of a model"""
    got = (model.eval(M.startv, model_completion=True).as_long(), model.eval(M.endv, model_completion=True).as_long())
    groups = {}
    for name, gi in pattern.groupindex.items():
        if ('open', gi) in M.g:
            groups[name] = (model.eval(M.g[('open', gi)], model_completion=True).as_long(),
                            model.eval(M.g[('close', gi)], model_completion=True).as_long())
    return got, groups


def validate(pattern, strings, N, mode='search', pos=0, endpos=None):
    """differential validation of the encoding against `re`; returns (agree, total, mismatches).
    One encoding, strings pinned one at a time with push/pop."""
    T = Text(N)
    ep = None if endpos is None else z3.IntVal(endpos)
    M = Matcher(pattern, T, mode=mode, pos=pos, endpos=ep)
    sol = z3.Solver()
    sol.add(*T.wf())
    sol.add(*M.cons)
    bad = []
    n = 0
    fn = getattr(pattern, mode)
    for s in strings:
        if len(s) > N or any(ch not in UCHARS for ch in s):
            continue
        if endpos is not None and endpos > len(s):
            continue
        n += 1
        sol.push()
        sol.add(*T.pin(s))
        r = sol.check()
        if str(r) != 'sat':
            bad.append((s, 'encoding-unsat', None, None))
            sol.pop()
            continue
        m = sol.model()
        mo = fn(s, pos) if endpos is None else fn(s, pos, endpos)
        got, groups = model_match(pattern, M, T, m)
        exp = (mo.start(), mo.end()) if mo else (-1, -1)
        gbad = {}
        if mo:
            for name, gg in groups.items():
                if gg != mo.span(name):
                    gbad[name] = (gg, mo.span(name))
        if got != exp or gbad:
            bad.append((s, got, exp, gbad))
        sol.pop()
    return n - len(bad), n, bad


def solve(cons, timeout=300, want_model=True):
    """one query: returns (verdict str, seconds, model|None)"""
    s = z3.Solver()
    s.set('timeout', int(timeout * 1000))
    s.add(*cons)
    t0 = time.time()
    r = s.check()
    dt = time.time() - t0
    return str(r), dt, (s.model() if str(r) == 'sat' and want_model else None)
